package main

import (
	"flag"
	"fmt"
	"os"
	"sort"
	"strings"
)

var (
	flagRepo  = flag.String("repo", "/repo", "repository root")
	flagSpecs = flag.String("specs", "/verif/specs", "extern spec directory")
	flagDump  = flag.String("dump", "", "write the SMT query of obligations whose name contains this string to stdout")
	flagSecs  = flag.Int("secs", 10, "per-query solver limit in seconds")
	flagV     = flag.Bool("v", false, "verbose")
	flagKeep  = flag.String("keep", "", "keep SMT files in this directory")
	flagEvDir = flag.String("evdir", "", "evidence directory (default <verif>/evidence)")
)

func main() {
	flag.Usage = func() {
		fmt.Fprintf(os.Stderr, "usage: govc [flags] check <PROPERTY> [quick|thorough] | fn <pkgdir>/<func>... | selftest\n")
		flag.PrintDefaults()
	}
	flag.Parse()
	args := flag.Args()
	if len(args) == 0 {
		flag.Usage()
		os.Exit(2)
	}
	loadBaselineLocals(*flagSpecs)
	switch args[0] {
	case "locals":
		os.Exit(cmdLocals())
	case "fn":
		os.Exit(cmdFn(args[1:]))
	case "check":
		tier := "quick"
		if len(args) > 2 {
			tier = args[2]
		}
		os.Exit(cmdCheck(args[1], tier))
	default:
		flag.Usage()
		os.Exit(2)
	}
}

var missingFns []string

// genFuncs builds obligations for the given function keys.
func genFuncs(w *World, keys []string) ([]*Gen, error) {
	var gens []*Gen
	w.preRegister(pkgDirsOf(keys))
	for _, k := range keys {
		fn := w.findFn(k)
		if fn == nil {
			// the function was renamed or removed: its own contract cannot be checked; callers that
			// relied on it now call an uncontracted function and fail their obligations by name
			missingFns = append(missingFns, k)
			continue
		}
		ct := w.ss.Contracts[k]
		g := &Gen{m: w.m, prog: w.prog, fn: fn, c: ct, key: k, world: w, noDecl: map[string]bool{}, alias: w.aliasesFor(fn)}
		if len(g.alias) > 0 {
			g.warnings = append(g.warnings, fmt.Sprintf("renamed locals: contract names read as %v", g.alias))
		}
		if err := g.run(); err != nil {
			return nil, err
		}
		gens = append(gens, g)
	}
	return gens, nil
}

func pkgDirsOf(keys []string) []string {
	seen := map[string]bool{}
	var out []string
	for _, k := range keys {
		if strings.HasPrefix(k, "lemma:") {
			continue
		}
		d := k[:strings.LastIndex(k, "/")]
		if !seen[d] {
			seen[d] = true
			out = append(out, d)
		}
	}
	sort.Strings(out)
	return out
}

func cmdFn(keys []string) int {
	ss, err := loadSpecs(*flagRepo, *flagSpecs)
	if err != nil {
		fmt.Fprintln(os.Stderr, err)
		return 2
	}
	w, err := loadWorld(*flagRepo, ss, pkgDirsOf(keys))
	if err != nil {
		fmt.Fprintln(os.Stderr, err)
		return 2
	}
	gens, err := genFuncs(w, keys)
	if err != nil {
		fmt.Fprintln(os.Stderr, err)
		return 2
	}
	var obls []*Obl
	for _, g := range gens {
		obls = append(obls, g.obls...)
		for _, wn := range g.warnings {
			fmt.Println("warning:", g.key+":", wn)
		}
		if *flagV {
			for _, li := range g.loops {
				p := g.prog.Fset.Position(li.minPos)
				fmt.Printf("loop %d of %s: header block %d (%s), first position line %d, %d blocks\n", li.ord, g.key, li.head.Index, li.head.Comment, p.Line, len(li.blocks))
			}
		}
	}
	if *flagDump != "" {
		for _, o := range obls {
			if strings.Contains(o.Name, *flagDump) {
				fmt.Println(o.query(""))
				return 0
			}
		}
	}
	dir := *flagKeep
	if dir == "" {
		dir, _ = os.MkdirTemp("", "govc")
		defer os.RemoveAll(dir)
	} else {
		os.MkdirAll(dir, 0o755)
	}
	cfg := &solveCfg{dir: dir, secs: *flagSecs, seed: 0, par: 5, maxSize: 400 << 10}
	solveAll(cfg, obls)
	bad := 0
	for _, o := range obls {
		mark := "ok  "
		if o.Verdict != "unsat" {
			mark = "FAIL"
			bad++
		}
		fmt.Printf("%s %-70s %-8s %-10s %.2fs  %s\n", mark, o.Name, o.Verdict, o.Solver, o.Secs, trunc(o.Src, 60))
		if o.Verdict != "unsat" && *flagV {
			fmt.Println("     ", o.Pos, strings.ReplaceAll(trunc(o.Output, 400), "\n", "\n      "))
		}
	}
	fmt.Printf("%d obligations, %d not discharged\n", len(obls), bad)
	if bad > 0 {
		return 1
	}
	return 0
}

