package main

// Contract files: `//@` comment lines in /repo/<pkg>/zz_contracts_verif.go
// (build tag verif, comment-only) and extern/ghost specs in /verif/specs/*.spec
// (same language, every line is a directive, no `//@` prefix needed).

import (
	"bufio"
	"fmt"
	"os"
	"regexp"
	"sort"
	"strconv"
	"strings"
)

type SpecFunc struct {
	Name   string
	Params []QVar
	Ret    string
	Body   *E // nil: uninterpreted
	PkgDir string
	Src    string
	Opaque bool // proof mode: declare-fun + triggered defining axiom; cex mode: define-fun
}

type Axiom struct {
	Name    string
	Body    *E
	Src     string
	IsLemma bool
	Uses    []string // lemmas/axioms a lemma may use
	PkgDir  string
	Hints   []*E
	Kind    string // "", rely, guar, ginv
}

type LoopSpec struct {
	Inv    []*E
	InvSrc []string
	Dec    *E
	Hints  []*E
	After    []*E // proved on every edge leaving the loop (loop postcondition)
	AfterSrc []string
	Step     []*E // proved on every back edge; prev_<name> is the value of <name> at the loop head of this iteration
	StepSrc  []string
}

type CallSpec struct { // "at call <callee>#k: requires e" / "hint e"
	Callee string
	K      int
	Req     []*E
	ReqSrc  []string
	Hints   []*E
	Matched bool
	Bind    map[string]string // ghost name -> callee result name
	Ghost   []GhostAssign     // ghost updates performed just before the call (same atomic step)
	GhostAfter []GhostAssign  // ghost updates performed right after the call returns (same atomic step)
	Optional bool // `at call? f#k:` the call may be absent (ghost / bind / hint clauses only: without them less is known, never more)
}

type GhostAssign struct {
	Comp string
	Idx  *E // nil: scalar component
	Val  *E
	Src  string
}

type Contract struct {
	Key       string // short key as written: isMarker, (*Cache).get, bytes.Index
	Extern    bool
	Trusted   bool // body not verified (assumed); listed in evidence
	ParamN    []string
	ResultN   []string
	Requires  []*E
	ReqSrc    []string
	Ensures   []*E
	EnsSrc    []string
	Pure      bool
	Modifies  []string // state component patterns; empty + !ModAll = nothing
	ModAll    bool
	ModSet    bool
	Loops     map[int]*LoopSpec
	Calls     []*CallSpec
	Uses      []string
	Expect    int
	NoReturn  bool // ensures false (diverges): T.FailNow etc.
	PkgDir    string
	File      string
	Line      int
	Inline    bool
	ExitHints []*E
	AllowPanic bool                // explicit panic statements are part of the function's behaviour (no obligation)
	NoSafety  bool                 // index/slice/nil obligations are not generated (stated in evidence; not claimed)
	NoAssertCheck bool             // type assertions x.(T) are assumed to hold (stated in evidence)
	Partial   bool                 // only call-site / nocall clauses of the body are proved; ensures, frame and safety stay assumed (stated in evidence)
	NoCall    []string             // callee names that must not be called (e.g. blocking operations)
	Then      *Contract            // second phase of a blocking call (after the environment has run)
	OnSpawn   []GhostAssign        // initial values of thread-local ghosts when started with `go`
	DynCallee map[string]*Contract // contracts assumed for calls through function-typed parameters
	Bind      map[string]string    // (dyn callee) ghost name -> result name it records
}

type SpecSet struct {
	Funcs     map[string]*SpecFunc
	Axioms    []*Axiom
	Contracts map[string]*Contract // by Key, per package dir ("" for externs)
	Props     map[string][]string  // property id -> function keys / lemma names
	Bounded   map[string][]string  // property id -> "pkgdir:TestName" bounded stand-ins
	Ghost     []QVar                // ghost state components (name, sort text)
	History   map[string]bool       // ghost history components (exempt from frame obligations)
	Shared    map[string][]string   // pkgdir -> shared state components ("Type.field" or ghost name)
	RG        map[string][]*Axiom   // pkgdir -> rely / guar / ginv clauses (Axiom.Kind)
}

func newSpecSet() *SpecSet {
	return &SpecSet{Funcs: map[string]*SpecFunc{}, Contracts: map[string]*Contract{}, Props: map[string][]string{}, Bounded: map[string][]string{}, Shared: map[string][]string{}, RG: map[string][]*Axiom{}, History: map[string]bool{}}
}

var directiveKW = map[string]bool{"pure": true, "opaque": true, "axiom": true, "lemma": true, "func": true, "extern": true,
	"requires": true, "ensures": true, "modifies": true, "loop": true, "use": true, "names": true,
	"expect_obligations": true, "ghost": true, "at": true, "trusted": true, "property": true, "noreturn": true,
	"inline": true, "hint": true, "exit": true, "bounded": true, "callee": true, "shared": true, "rely": true, "guar": true, "ginv": true, "nocall": true, "then": true, "onspawn": true, "allowpanic": true, "nosafety": true, "assume_typeasserts": true, "partial": true}

// readDirectives returns logical directive lines (continuations joined).
func readDirectives(path string, prefixed bool) ([]string, []int, error) {
	f, err := os.Open(path)
	if err != nil {
		return nil, nil, err
	}
	defer f.Close()
	var out []string
	var lines []int
	sc := bufio.NewScanner(f)
	sc.Buffer(make([]byte, 1<<20), 1<<20)
	ln := 0
	for sc.Scan() {
		ln++
		l := sc.Text()
		if prefixed {
			t := strings.TrimSpace(l)
			if !strings.HasPrefix(t, "//@") {
				continue
			}
			l = strings.TrimPrefix(t, "//@")
		}
		if i := strings.Index(l, "//"); i >= 0 && !strings.Contains(l[:i], "\"") {
			l = l[:i]
		}
		t := strings.TrimSpace(l)
		if t == "" {
			continue
		}
		first := t
		if i := strings.IndexAny(t, " \t(:"); i >= 0 {
			first = t[:i]
		}
		if directiveKW[first] || len(out) == 0 {
			out = append(out, t)
			lines = append(lines, ln)
		} else {
			out[len(out)-1] += " " + t
		}
	}
	return out, lines, sc.Err()
}

var reSpecFunc = regexp.MustCompile(`^(?:pure|opaque)\s+func\s+(\w+)\s*\(([^)]*)\)\s*([^=]*?)\s*(?:=\s*(.*))?$`)
var reFuncHdr = regexp.MustCompile(`^(func|extern)\s+(\S+?)(?:\s*\(([^)]*)\)\s*(?:\(([^)]*)\))?)?\s*$`)
var reLoop = regexp.MustCompile(`^loop\s+(\d+)\s*:\s*(invariant|decreases|hint|after|step)\s+(.*)$`)
var reAtCall = regexp.MustCompile(`^at\s+call\??\s+(\S+?)#(\d+)\s*:\s*(requires|hint|bind|ghost_after|ghost)\s+(.*)$`)

func parseParams(s string) []QVar {
	// "d []byte, p int" or "a, b int"; names only allowed ("s, sep")
	var out []QVar
	s = strings.TrimSpace(s)
	if s == "" {
		return nil
	}
	parts := splitTop(s, ',')
	var pending []string
	for _, p := range parts {
		p = strings.TrimSpace(p)
		i := strings.IndexAny(p, " \t")
		if i < 0 {
			pending = append(pending, p)
			continue
		}
		name, typ := p[:i], strings.TrimSpace(p[i+1:])
		for _, n := range pending {
			out = append(out, QVar{n, typ})
		}
		pending = nil
		out = append(out, QVar{name, typ})
	}
	for _, n := range pending {
		out = append(out, QVar{n, ""})
	}
	return out
}

func splitTop(s string, sep byte) []string {
	var out []string
	depth := 0
	last := 0
	for i := 0; i < len(s); i++ {
		switch s[i] {
		case '(', '[', '{':
			depth++
		case ')', ']', '}':
			depth--
		case sep:
			if depth == 0 {
				out = append(out, s[last:i])
				last = i + 1
			}
		}
	}
	out = append(out, s[last:])
	return out
}

func names(vs []QVar) []string {
	var o []string
	for _, v := range vs {
		o = append(o, v.Name)
	}
	return o
}

// loadSpecFile parses one contract/spec file into ss. pkgDir is the /repo
// relative package dir the file belongs to ("" for /verif/specs files).
func (ss *SpecSet) loadSpecFile(path string, prefixed bool, pkgDir string) error {
	dirs, lines, err := readDirectives(path, prefixed)
	if err != nil {
		return err
	}
	var cur *Contract
	var curLemma *Axiom
	fail := func(i int, f string, a ...any) error {
		return fmt.Errorf("%s:%d: %s", path, lines[i], fmt.Sprintf(f, a...))
	}
	mustExpr := func(i int, s string) (*E, error) {
		e, err := parseExpr(s)
		if err != nil {
			return nil, fail(i, "%v", err)
		}
		return e, nil
	}
	for i, d := range dirs {
		switch {
		case strings.HasPrefix(d, "pure func") || strings.HasPrefix(d, "opaque func"):
			m := reSpecFunc.FindStringSubmatch(d)
			if m == nil {
				return fail(i, "bad pure func: %s", d)
			}
			sf := &SpecFunc{Name: m[1], Params: parseParams(m[2]), Ret: strings.TrimSpace(m[3]), PkgDir: pkgDir, Src: d, Opaque: d[0] == 'o'}
			if sf.Ret == "" {
				sf.Ret = "bool"
			}
			if m[4] != "" {
				e, err := mustExpr(i, m[4])
				if err != nil {
					return err
				}
				sf.Body = e
			}
			if _, dup := ss.Funcs[sf.Name]; dup {
				return fail(i, "duplicate spec function %s", sf.Name)
			}
			ss.Funcs[sf.Name] = sf
			cur, curLemma = nil, nil
		case strings.HasPrefix(d, "axiom ") || strings.HasPrefix(d, "lemma "):
			rest := d[6:]
			j := strings.Index(rest, ":")
			if j < 0 {
				return fail(i, "axiom/lemma needs `name: expr`")
			}
			e, err := mustExpr(i, rest[j+1:])
			if err != nil {
				return err
			}
			ax := &Axiom{Name: strings.TrimSpace(rest[:j]), Body: e, Src: strings.TrimSpace(rest[j+1:]), IsLemma: d[0] == 'l', PkgDir: pkgDir}
			ss.Axioms = append(ss.Axioms, ax)
			cur = nil
			curLemma = nil
			if ax.IsLemma {
				curLemma = ax
			}
		case strings.HasPrefix(d, "ghost "):
			// ghost var name sort
			f := strings.Fields(d)
			if len(f) >= 5 && f[1] == "history" && f[2] == "var" {
				// a write-only history flag/counter: exempt from frame obligations
				ss.Ghost = append(ss.Ghost, QVar{f[3], strings.Join(f[4:], " ")})
				ss.History[f[3]] = true
				continue
			}
			if len(f) < 4 || f[1] != "var" {
				return fail(i, "ghost var <name> <smt sort>")
			}
			ss.Ghost = append(ss.Ghost, QVar{f[2], strings.Join(f[3:], " ")})
		case strings.HasPrefix(d, "bounded "):
			rest := d[8:]
			j := strings.Index(rest, ":")
			if j < 0 {
				return fail(i, "bounded ID: TestName, ...")
			}
			id := strings.TrimSpace(rest[:j])
			for _, k := range strings.Split(rest[j+1:], ",") {
				if k = strings.TrimSpace(k); k != "" {
					ss.Bounded[id] = append(ss.Bounded[id], pkgDir+":"+k)
				}
			}
		case strings.HasPrefix(d, "shared "):
			for _, k := range strings.Split(d[7:], ",") {
				if k = strings.TrimSpace(k); k != "" {
					ss.Shared[pkgDir] = append(ss.Shared[pkgDir], k)
				}
			}
			cur, curLemma = nil, nil
		case strings.HasPrefix(d, "rely ") || strings.HasPrefix(d, "guar ") || strings.HasPrefix(d, "ginv "):
			rest := d[5:]
			j := strings.Index(rest, ":")
			if j < 0 {
				return fail(i, "rely/guar/ginv needs `name: expr`")
			}
			e, err := mustExpr(i, rest[j+1:])
			if err != nil {
				return err
			}
			ss.RG[pkgDir] = append(ss.RG[pkgDir], &Axiom{Name: strings.TrimSpace(rest[:j]), Body: e, Src: strings.TrimSpace(rest[j+1:]), PkgDir: pkgDir, Kind: d[:4]})
			cur, curLemma = nil, nil
		case strings.HasPrefix(d, "property "):
			rest := d[9:]
			j := strings.Index(rest, ":")
			if j < 0 {
				return fail(i, "property ID: keys")
			}
			id := strings.TrimSpace(rest[:j])
			for _, k := range strings.Split(rest[j+1:], ",") {
				k = strings.TrimSpace(k)
				if k != "" {
					if pkgDir != "" && !strings.Contains(k, "/") {
						k = pkgDir + "/" + k
					}
					ss.Props[id] = append(ss.Props[id], k)
				}
			}
		case strings.HasPrefix(d, "func ") || strings.HasPrefix(d, "extern "):
			m := reFuncHdr.FindStringSubmatch(d)
			if m == nil {
				return fail(i, "bad function header: %s", d)
			}
			cur = &Contract{Key: m[2], Extern: m[1] == "extern", Loops: map[int]*LoopSpec{}, PkgDir: pkgDir, File: path, Line: lines[i]}
			cur.ParamN = names(parseParams(m[3]))
			cur.ResultN = names(parseParams(m[4]))
			key := cur.Key
			if !cur.Extern {
				key = pkgDir + "/" + cur.Key
			} else if pkgDir != "" {
				key = "@" + pkgDir + "@" + cur.Key // package-local extern contract
			}
			if _, dup := ss.Contracts[key]; dup {
				return fail(i, "duplicate contract %s", key)
			}
			ss.Contracts[key] = cur
			curLemma = nil
		case curLemma != nil && strings.HasPrefix(d, "use "):
			curLemma.Uses = append(curLemma.Uses, strings.FieldsFunc(strings.TrimPrefix(strings.TrimPrefix(d, "use "), "lemma "), func(r rune) bool { return r == ',' || r == ' ' || r == '\t' })...)
		case curLemma != nil && strings.HasPrefix(d, "hint "):
			e, err := mustExpr(i, d[5:])
			if err != nil {
				return err
			}
			curLemma.Hints = append(curLemma.Hints, e)
		default:
			if cur == nil {
				return fail(i, "directive outside a function contract: %s", d)
			}
			switch {
			case strings.HasPrefix(d, "requires "):
				e, err := mustExpr(i, d[9:])
				if err != nil {
					return err
				}
				cur.Requires = append(cur.Requires, e)
				cur.ReqSrc = append(cur.ReqSrc, d[9:])
			case strings.HasPrefix(d, "ensures "):
				e, err := mustExpr(i, d[8:])
				if err != nil {
					return err
				}
				if e.K == "bool" && e.S == "false" {
					cur.NoReturn = true
				}
				cur.Ensures = append(cur.Ensures, e)
				cur.EnsSrc = append(cur.EnsSrc, d[8:])
			case d == "pure":
				cur.Pure = true
				cur.ModSet = true
			case d == "trusted":
				cur.Trusted = true
			case d == "noreturn":
				cur.NoReturn = true
			case d == "allowpanic":
				cur.AllowPanic = true
			case d == "nosafety":
				cur.NoSafety = true
			case d == "assume_typeasserts":
				cur.NoAssertCheck = true
			case d == "partial":
				cur.Partial = true
			case d == "inline":
				cur.Inline = true
			case strings.HasPrefix(d, "modifies"):
				cur.ModSet = true
				for _, k := range strings.Split(strings.TrimSpace(d[8:]), ",") {
					k = strings.TrimSpace(k)
					switch k {
					case "", "nothing":
					case "all":
						cur.ModAll = true
					default:
						cur.Modifies = append(cur.Modifies, k)
					}
				}
			case strings.HasPrefix(d, "names"):
				r := strings.Trim(strings.TrimSpace(d[5:]), "()")
				cur.ResultN = names(parseParams(r))
			case strings.HasPrefix(d, "use "):
				cur.Uses = append(cur.Uses, strings.FieldsFunc(strings.TrimPrefix(strings.TrimPrefix(d, "use "), "lemma "), func(r rune) bool { return r == ',' || r == ' ' || r == '\t' })...)
			case strings.HasPrefix(d, "expect_obligations"):
				f := strings.Fields(d)
				n, err := strconv.Atoi(f[len(f)-1])
				if err != nil {
					return fail(i, "expect_obligations >= n")
				}
				cur.Expect = n
			case strings.HasPrefix(d, "callee "):
				// callee <param>(<pnames>) (<rnames>): pure | modifies ... [; ensures e]*
				rest := strings.TrimSpace(d[7:])
				j := strings.Index(rest, ":")
				if j < 0 {
					return fail(i, "callee <param>: <clauses>")
				}
				hdr, body := strings.TrimSpace(rest[:j]), rest[j+1:]
				dc := &Contract{Key: "param:" + hdr, Extern: true, Trusted: true, Loops: map[int]*LoopSpec{}}
				if k := strings.Index(hdr, "("); k >= 0 {
					m := reFuncHdr.FindStringSubmatch("extern " + hdr)
					if m == nil {
						return fail(i, "bad callee header %s", hdr)
					}
					dc.ParamN = names(parseParams(m[3]))
					dc.ResultN = names(parseParams(m[4]))
					hdr = hdr[:k]
				}
				for _, cl := range strings.Split(body, ";") {
					cl = strings.TrimSpace(cl)
					switch {
					case cl == "pure":
						dc.Pure, dc.ModSet = true, true
					case strings.HasPrefix(cl, "modifies"):
						dc.ModSet = true
						for _, k := range strings.Split(strings.TrimSpace(cl[8:]), ",") {
							if k = strings.TrimSpace(k); k != "" && k != "nothing" {
								dc.Modifies = append(dc.Modifies, k)
							}
						}
					case strings.HasPrefix(cl, "ensures "):
						e, err := mustExpr(i, cl[8:])
						if err != nil {
							return err
						}
						dc.Ensures = append(dc.Ensures, e)
						dc.EnsSrc = append(dc.EnsSrc, cl[8:])
					case strings.HasPrefix(cl, "bind "):
						kv := strings.SplitN(cl[5:], "=", 2)
						if len(kv) != 2 {
							return fail(i, "bind ghost = result")
						}
						if dc.Bind == nil {
							dc.Bind = map[string]string{}
						}
						dc.Bind[strings.TrimSpace(kv[0])] = strings.TrimSpace(kv[1])
					case cl == "":
					default:
						return fail(i, "unknown callee clause %q", cl)
					}
				}
				if cur.DynCallee == nil {
					cur.DynCallee = map[string]*Contract{}
				}
				cur.DynCallee[strings.TrimSpace(hdr)] = dc
			case strings.HasPrefix(d, "then "):
				// second phase of a blocking call: then modifies ... | then ensures e
				if cur.Then == nil {
					cur.Then = &Contract{Key: cur.Key + "/then", Extern: cur.Extern, Loops: map[int]*LoopSpec{}, ModSet: true}
				}
				rest := strings.TrimSpace(d[5:])
				switch {
				case strings.HasPrefix(rest, "modifies"):
					for _, k := range strings.Split(strings.TrimSpace(rest[8:]), ",") {
						if k = strings.TrimSpace(k); k != "" && k != "nothing" {
							cur.Then.Modifies = append(cur.Then.Modifies, k)
						}
					}
				case strings.HasPrefix(rest, "ensures "):
					e, err := mustExpr(i, rest[8:])
					if err != nil {
						return err
					}
					cur.Then.Ensures = append(cur.Then.Ensures, e)
					cur.Then.EnsSrc = append(cur.Then.EnsSrc, rest[8:])
				default:
					return fail(i, "then modifies|ensures ...")
				}
			case strings.HasPrefix(d, "onspawn "):
				for _, as := range strings.Split(d[8:], ";") {
					as = strings.TrimSpace(as)
					k := strings.Index(as, " = ")
					if as == "" || k < 0 {
						continue
					}
					ve, err := mustExpr(i, strings.TrimSpace(as[k+3:]))
					if err != nil {
						return err
					}
					cur.OnSpawn = append(cur.OnSpawn, GhostAssign{Comp: strings.TrimSpace(as[:k]), Val: ve, Src: as})
				}
			case strings.HasPrefix(d, "nocall "):
				for _, k := range strings.Split(d[7:], ",") {
					if k = strings.TrimSpace(k); k != "" {
						cur.NoCall = append(cur.NoCall, k)
					}
				}
			case strings.HasPrefix(d, "exit hint "):
				e, err := mustExpr(i, d[10:])
				if err != nil {
					return err
				}
				cur.ExitHints = append(cur.ExitHints, e)
			case strings.HasPrefix(d, "loop "):
				m := reLoop.FindStringSubmatch(d)
				if m == nil {
					return fail(i, "bad loop directive: %s", d)
				}
				k, _ := strconv.Atoi(m[1])
				ls := cur.Loops[k]
				if ls == nil {
					ls = &LoopSpec{}
					cur.Loops[k] = ls
				}
				e, err := mustExpr(i, m[3])
				if err != nil {
					return err
				}
				switch m[2] {
				case "invariant":
					ls.Inv = append(ls.Inv, e)
					ls.InvSrc = append(ls.InvSrc, m[3])
				case "decreases":
					ls.Dec = e
				case "hint":
					ls.Hints = append(ls.Hints, e)
				case "after":
					ls.After = append(ls.After, e)
					ls.AfterSrc = append(ls.AfterSrc, m[3])
				case "step":
					ls.Step = append(ls.Step, e)
					ls.StepSrc = append(ls.StepSrc, m[3])
				}
			case strings.HasPrefix(d, "at "):
				m := reAtCall.FindStringSubmatch(d)
				if m == nil {
					return fail(i, "bad at-call directive: %s", d)
				}
				k, _ := strconv.Atoi(m[2])
				var cs *CallSpec
				for _, c := range cur.Calls {
					if c.Callee == m[1] && c.K == k {
						cs = c
					}
				}
				if cs == nil {
					cs = &CallSpec{Callee: m[1], K: k, Optional: true}
					cur.Calls = append(cur.Calls, cs)
				}
				if !strings.HasPrefix(strings.TrimSpace(d[2:]), "call?") {
					cs.Optional = false
				} else if m[3] == "requires" {
					return fail(i, "at call? cannot carry a requires clause (a requirement on a call that may be absent would vanish silently)")
				}
				if m[3] == "ghost" || m[3] == "ghost_after" {
					// ghost comp[idx] = expr ; comp = expr   (several separated by ';')
					for _, as := range strings.Split(m[4], ";") {
						as = strings.TrimSpace(as)
						if as == "" {
							continue
						}
						k := strings.Index(as, " = ")
						if k < 0 {
							return fail(i, "ghost assignment needs ` = `")
						}
						lhs, rhs := strings.TrimSpace(as[:k]), strings.TrimSpace(as[k+3:])
						ga := GhostAssign{Src: as}
						if b := strings.Index(lhs, "["); b >= 0 && strings.HasSuffix(lhs, "]") {
							ga.Comp = lhs[:b]
							ie, err := mustExpr(i, lhs[b+1:len(lhs)-1])
							if err != nil {
								return err
							}
							ga.Idx = ie
						} else {
							ga.Comp = lhs
						}
						ve, err := mustExpr(i, rhs)
						if err != nil {
							return err
						}
						ga.Val = ve
						if m[3] == "ghost_after" {
							cs.GhostAfter = append(cs.GhostAfter, ga)
						} else {
							cs.Ghost = append(cs.Ghost, ga)
						}
					}
					continue
				}
				if m[3] == "bind" {
					if cs.Bind == nil {
						cs.Bind = map[string]string{}
					}
					for _, kv := range strings.Split(m[4], ",") {
						p := strings.SplitN(kv, "=", 2)
						if len(p) != 2 {
							return fail(i, "bind ghost = result, ...")
						}
						cs.Bind[strings.TrimSpace(p[0])] = strings.TrimSpace(p[1])
					}
					continue
				}
				e, err := mustExpr(i, m[4])
				if err != nil {
					return err
				}
				if m[3] == "requires" {
					cs.Req = append(cs.Req, e)
					cs.ReqSrc = append(cs.ReqSrc, m[4])
				} else {
					cs.Hints = append(cs.Hints, e)
				}
			default:
				return fail(i, "unknown directive: %s", d)
			}
		}
	}
	return nil
}

func sortedKeys[V any](m map[string]V) []string {
	var k []string
	for s := range m {
		k = append(k, s)
	}
	sort.Strings(k)
	return k
}
