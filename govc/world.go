package main

import (
	"fmt"
	"go/token"
	"go/types"
	"os"
	"path/filepath"
	"sort"
	"strings"

	"golang.org/x/tools/go/packages"
	"golang.org/x/tools/go/ssa"
	"golang.org/x/tools/go/ssa/ssautil"
)

const modulePath = "github.com/rogpeppe/go-internal"

type World struct {
	repo    string
	prog    *ssa.Program
	pkgs    map[string]*ssa.Package // by import path
	ss      *SpecSet
	m       *Mod
	allFns  map[*ssa.Function]bool
	ginit   map[*ssa.Global]ssa.Value
	gdone   map[*ssa.Global]bool
	loadSec float64
	tinfo   map[string]*types.Info // by package path
}

func findContractFiles(repo string) ([]string, error) {
	var out []string
	err := filepath.Walk(repo, func(p string, info os.FileInfo, err error) error {
		if err != nil {
			return nil
		}
		if info.IsDir() && (info.Name() == ".git" || info.Name() == "testdata") {
			return filepath.SkipDir
		}
		if !info.IsDir() && info.Name() == "zz_contracts_verif.go" {
			out = append(out, p)
		}
		return nil
	})
	sort.Strings(out)
	return out, err
}

func loadSpecs(repo, specDir string) (*SpecSet, error) {
	ss := newSpecSet()
	files, _ := filepath.Glob(filepath.Join(specDir, "*.spec"))
	sort.Strings(files)
	for _, f := range files {
		if err := ss.loadSpecFile(f, false, ""); err != nil {
			return nil, err
		}
	}
	cfs, err := findContractFiles(repo)
	if err != nil {
		return nil, err
	}
	for _, f := range cfs {
		rel, _ := filepath.Rel(repo, filepath.Dir(f))
		if err := ss.loadSpecFile(f, true, filepath.ToSlash(rel)); err != nil {
			return nil, err
		}
	}
	return ss, nil
}

func loadWorld(repo string, ss *SpecSet, pkgDirs []string) (*World, error) {
	var pats []string
	for _, d := range pkgDirs {
		pats = append(pats, "./"+d)
	}
	cfg := &packages.Config{Mode: packages.LoadAllSyntax, Dir: repo, BuildFlags: []string{"-tags=verif"},
		Env: append(os.Environ(), "GOFLAGS=-mod=mod", "GOPROXY=off", "GOSUMDB=off", "GOTOOLCHAIN=local", "GOOS=linux", "GOARCH=amd64", "CGO_ENABLED=0")}
	pkgs, err := packages.Load(cfg, pats...)
	if err != nil {
		return nil, err
	}
	nerr := 0
	packages.Visit(pkgs, nil, func(p *packages.Package) {
		for _, e := range p.Errors {
			if strings.HasPrefix(p.PkgPath, modulePath) {
				fmt.Fprintf(os.Stderr, "load error: %s: %v\n", p.PkgPath, e)
				nerr++
			}
		}
	})
	if nerr > 0 {
		return nil, fmt.Errorf("package load errors: the tree does not compile")
	}
	prog, _ := ssautil.AllPackages(pkgs, ssa.GlobalDebug|ssa.BareInits)
	prog.Build()
	w := &World{repo: repo, prog: prog, pkgs: map[string]*ssa.Package{}, ss: ss, ginit: map[*ssa.Global]ssa.Value{}, gdone: map[*ssa.Global]bool{}, tinfo: map[string]*types.Info{}}
	packages.Visit(pkgs, nil, func(p *packages.Package) {
		if p.TypesInfo != nil && strings.HasPrefix(p.PkgPath, modulePath) {
			w.tinfo[p.PkgPath] = p.TypesInfo
		}
	})
	for _, p := range prog.AllPackages() {
		w.pkgs[p.Pkg.Path()] = p
	}
	w.m = newMod(ss)
	w.m.verified = func(path string) bool {
		return strings.HasPrefix(path, modulePath) || path == "golang.org/x/tools/txtar" || path == "golang.org/x/mod/module" || path == "go/build"
	}
	return w, nil
}

func (w *World) pkgDirOf(p *types.Package) (string, bool) {
	path := p.Path()
	if path == modulePath {
		return ".", true
	}
	if strings.HasPrefix(path, modulePath+"/") {
		return strings.TrimPrefix(path, modulePath+"/"), true
	}
	return "", false
}

func externKey(fn *ssa.Function) string {
	if o := fn.Origin(); o != nil {
		fn = o // an instantiation of a generic function is looked up under the generic's name
	}
	if fn.Pkg == nil {
		if recv := fn.Signature.Recv(); recv != nil {
			return "(" + recv.Type().String() + ")." + fn.Name()
		}
		return fn.String()
	}
	if recv := fn.Signature.Recv(); recv != nil {
		return "(" + recv.Type().String() + ")." + fn.Name()
	}
	return fn.Pkg.Pkg.Path() + "." + fn.Name()
}

func (w *World) contractFor(fn *ssa.Function) *Contract {
	if fn == nil {
		return nil
	}
	if fn.Pkg != nil {
		if dir, ok := w.pkgDirOf(fn.Pkg.Pkg); ok {
			if c, ok := w.ss.Contracts[dir+"/"+fnShort(fn)]; ok {
				return c
			}
			return nil
		}
	}
	if c, ok := w.ss.Contracts[externKey(fn)]; ok {
		return c
	}
	return w.assumedPure(fn)
}

// Package-level functions of these standard-library packages have no effect on the modelled
// state (they compute a result from their arguments; a returned slice or string is either
// part of an argument or freshly allocated).  A call of one that has no explicit contract is
// treated as pure with an unconstrained result instead of as a call with unknown effects, so
// that swapping in a modern library call (strings.Cut, bytes.TrimLeft, slices.IndexFunc, ...)
// does not lose the frame of the caller.  Each use is listed in the evidence as an assumption.
var pureStdPkgs = map[string]bool{"strings": true, "bytes": true, "strconv": true, "unicode": true, "unicode/utf8": true,
	"slices": true, "maps": true, "cmp": true, "math": true, "math/bits": true, "path": true, "sort": true, "errors": true}

// functions of those packages that do write through an argument or call back into the module
var impureStd = map[string]bool{"slices.Sort": true, "slices.SortFunc": true, "slices.SortStableFunc": true, "slices.Reverse": true,
	"slices.Delete": true, "slices.DeleteFunc": true, "slices.Insert": true, "slices.Compact": true, "slices.CompactFunc": true,
	"slices.Replace": true, "slices.Grow": true, "slices.Clip": true, "maps.Copy": true, "maps.DeleteFunc": true,
	"sort.Sort": true, "sort.Stable": true, "sort.Slice": true, "sort.SliceStable": true, "sort.Strings": true, "sort.Ints": true,
	"sort.Search": true, "slices.IndexFunc": false, "strconv.AppendInt": true, "strconv.AppendQuote": true, "utf8.AppendRune": true,
	"unicode/utf8.AppendRune": true, "unicode/utf8.EncodeRune": true, "bytes.NewBuffer": true, "bytes.NewBufferString": true}

var assumedPureCache = map[string]*Contract{}

func (w *World) assumedPure(fn *ssa.Function) *Contract {
	if fn == nil || fn.Signature.Recv() != nil {
		return nil
	}
	if o := fn.Origin(); o != nil {
		fn = o
	}
	if fn.Pkg == nil || !pureStdPkgs[fn.Pkg.Pkg.Path()] {
		return nil
	}
	key := fn.Pkg.Pkg.Path() + "." + fn.Name()
	if impureStd[key] {
		return nil
	}
	// a function-typed parameter means a call-back (IndexFunc, ContainsFunc, TrimFunc): only
	// those whose call-back is itself without effect are safe; the module passes closures over
	// its own state nowhere in the verified set, but stay conservative
	for i := 0; i < fn.Signature.Params().Len(); i++ {
		if _, isFn := fn.Signature.Params().At(i).Type().Underlying().(*types.Signature); isFn {
			return nil
		}
	}
	if c, ok := assumedPureCache[key]; ok {
		return c
	}
	c := &Contract{Key: "(assumed pure, result unconstrained) " + key, Extern: true, Pure: true, ModSet: true, Loops: map[int]*LoopSpec{}}
	assumedPureCache[key] = c
	return c
}

// contractForIn: an extern contract written in the caller's package contract file
// (key "@<pkgdir>@<extern key>") overrides the global one.
func (w *World) contractForIn(fn *ssa.Function, caller *ssa.Function) *Contract {
	if caller != nil && caller.Pkg != nil && fn != nil {
		if dir, ok := w.pkgDirOf(caller.Pkg.Pkg); ok {
			if c, ok := w.ss.Contracts["@"+dir+"@"+externKey(fn)]; ok {
				return c
			}
		}
	}
	return w.contractFor(fn)
}

func (w *World) contractForMethod(cc *ssa.CallCommon, caller *ssa.Function) *Contract {
	t := cc.Value.Type()
	key := "(" + t.String() + ")." + cc.Method.Name()
	if caller != nil && caller.Pkg != nil {
		if dir, ok := w.pkgDirOf(caller.Pkg.Pkg); ok {
			if c, ok := w.ss.Contracts["@"+dir+"@"+key]; ok {
				return c
			}
		}
	}
	if c, ok := w.ss.Contracts[key]; ok {
		return c
	}
	return nil
}

// findFn resolves "pkgdir/short" to an SSA function.
func (w *World) findFn(key string) *ssa.Function {
	i := strings.LastIndex(key, "/")
	dir, short := key[:i], key[i+1:]
	path := modulePath + "/" + dir
	if dir == "." {
		path = modulePath
	}
	p := w.pkgs[path]
	if p == nil {
		return nil
	}
	w.ensureAll()
	for fn := range w.allFns {
		if fn.Pkg == p && fnShort(fn) == short && fn.Synthetic == "" {
			return fn
		}
	}
	return nil
}

func (w *World) ensureAll() {
	if w.allFns == nil {
		w.allFns = ssautil.AllFunctions(w.prog)
	}
}

// globalInit returns the single value stored to gl by its package initialiser,
// or nil if the variable is stored to (or has its address taken) anywhere else.
func (w *World) globalInit(gl *ssa.Global) ssa.Value {
	if w.gdone[gl] {
		return w.ginit[gl]
	}
	w.gdone[gl] = true
	w.ensureAll()
	var val ssa.Value
	n := 0
	bad := false
	for fn := range w.allFns {
		if fn.Pkg != gl.Pkg {
			continue
		}
		for _, b := range fn.Blocks {
			for _, in := range b.Instrs {
				switch x := in.(type) {
				case *ssa.Store:
					if x.Addr == gl {
						if fn.Name() == "init" && fn.Parent() == nil {
							val = x.Val
							n++
						} else {
							bad = true
						}
					}
					if x.Val == gl {
						bad = true
					}
				case *ssa.UnOp:
				case *ssa.DebugRef:
				default:
					for _, op := range in.Operands(nil) {
						if *op == gl {
							bad = true
						}
					}
				}
			}
		}
	}
	if bad || n != 1 {
		return nil
	}
	w.ginit[gl] = val
	return val
}

// preRegister declares every heap component that any function of the given packages can
// touch, before any obligation is generated.  Modifies clauses (wildcards and exact names)
// are expanded against the set of known components; a component first touched after a call
// would otherwise escape that call's havoc.
func (w *World) preRegister(pkgDirs []string) {
	w.ensureAll()
	want := map[string]bool{}
	for _, d := range pkgDirs {
		if d == "." {
			want[modulePath] = true
		} else {
			want[modulePath+"/"+d] = true
		}
	}
	var fns []*ssa.Function
	for fn := range w.allFns {
		if fn.Pkg != nil && want[fn.Pkg.Pkg.Path()] && fn.Synthetic == "" {
			fns = append(fns, fn)
		}
	}
	sort.Slice(fns, func(i, j int) bool { return fns[i].String() < fns[j].String() })
	for _, fn := range fns {
		g := &Gen{m: w.m, prog: w.prog, fn: fn, world: w, noDecl: map[string]bool{}}
		func() {
			defer func() { recover() }() // types outside the modelled subset: nothing to register
			tmp := map[string]bool{}
			locals := map[*ssa.Alloc]bool{}
			for _, b := range fn.Blocks {
				for _, in := range b.Instrs {
					func() {
						defer func() { recover() }()
						switch x := in.(type) {
						case *ssa.FieldAddr:
							g.addrComps(x, tmp, locals)
						case *ssa.IndexAddr:
							g.addrComps(x, tmp, locals)
						case *ssa.Alloc:
							if x.Heap || isArrayAlloc(x) {
								g.allocComps(x, tmp)
							}
						case *ssa.MakeSlice:
							if sl, ok := x.Type().Underlying().(*types.Slice); ok {
								w.m.compSliceHeap(w.m.sortOf(sl.Elem()))
							}
						case *ssa.MakeMap:
							regMap(w.m, x.Type())
						case *ssa.MapUpdate:
							regMap(w.m, x.Map.Type())
						case *ssa.Lookup:
							if _, ok := x.X.Type().Underlying().(*types.Map); ok {
								regMap(w.m, x.X.Type())
							}
						case *ssa.UnOp:
							if gl, ok := x.X.(*ssa.Global); ok {
								w.m.compGlobal(gl)
							}
							if x.Op == token.MUL {
								if pt, ok := x.X.Type().Underlying().(*types.Pointer); ok {
									switch pt.Elem().Underlying().(type) {
									case *types.Basic, *types.Pointer, *types.Slice, *types.Map, *types.Interface, *types.Signature, *types.Chan:
										w.m.compCell(w.m.sortOf(pt.Elem()))
									}
								}
							}
						case *ssa.Store:
							if gl, ok := x.Addr.(*ssa.Global); ok {
								w.m.compGlobal(gl)
							}
						}
					}()
				}
			}
		}()
	}
}

func regMap(m *Mod, t types.Type) {
	mt, ok := t.Underlying().(*types.Map)
	if !ok {
		return
	}
	ks, vs := m.sortOf(mt.Key()), m.sortOf(mt.Elem())
	if ks == "Str" {
		ks = "Int"
	}
	m.compMap(ks, vs)
}
