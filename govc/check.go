package main

import (
	"encoding/json"
	"fmt"
	"os"
	"path/filepath"
	"regexp"
	"sort"
	"strconv"
	"strings"
	"sync"
	"time"

	"golang.org/x/tools/go/ssa"
)

type finding struct {
	Prop, Obligation, Input, When, What string
}

func loadFindings(path string) (finds []finding, fixed []string) {
	b, err := os.ReadFile(path)
	if err != nil {
		return nil, nil
	}
	re := regexp.MustCompile(`(\w+)=("(?:[^"\\]|\\.)*"|\S+)`)
	for _, l := range strings.Split(string(b), "\n") {
		l = strings.TrimSpace(l)
		switch {
		case strings.HasPrefix(l, "finding:"):
			f := finding{}
			for _, m := range re.FindAllStringSubmatch(l, -1) {
				v := m[2]
				if strings.HasPrefix(v, "\"") {
					if u, err := strconv.Unquote(v); err == nil {
						v = u
					}
				}
				switch m[1] {
				case "property":
					f.Prop = v
				case "obligation":
					f.Obligation = v
				case "input":
					f.Input = v
				case "when":
					f.When = v
				case "what":
					f.What = v
				}
			}
			finds = append(finds, f)
		case strings.HasPrefix(l, "fixed:"):
			fixed = append(fixed, l)
		}
	}
	return
}

var standingAssumptions = []string{
	"go/packages, go/types and go/ssa (x/tools v0.29.0) produce the SSA of the code the compiler compiles; the SSA->VC translation and heap model of govc are correct",
	"z3 4.8.12 / z3 5.1.0 / cvc5 1.0 are sound (an obligation counts as discharged when one of them answers unsat; thorough mode asks for a second solver's agreement)",
	"build configuration GOOS=linux GOARCH=amd64, build tag verif; files for other platforms are not verified",
	"signed machine integers are treated as mathematical integers (no overflow obligations); unsigned arithmetic wraps",
	"no unsafe, reflection or data races in the verified functions; package-level byte-slice literals stored only by init are never written through",
	"extern contracts (listed in trusted_base) are assumed, not proved",
	"termination is shown only where a decreases clause is listed (range loops are bounded by the language and listed separately)",
	"interface-typed parameters and struct fields are assumed non-nil where a method is called on them; for interface values obtained from a call in the same function that is an obligation",
	"package-level functions of strings, bytes, strconv, unicode, utf8, slices, maps, cmp, math, path, sort and errors without an explicit contract are assumed to have no effect on the modelled state (result unconstrained); each use is listed in trusted_base",
	"a helper of this module without contract that is loop-free and not recursive is executed in place of its call (exact); a contract clause naming a renamed local is read with the new name per specs/locals.json (listed under warnings when it happens)",
}

type evSample struct {
	Obligation string  `json:"obligation"`
	Kind       string  `json:"kind"`
	Verdict    string  `json:"verdict"`
	Solver     string  `json:"solver"`
	Secs       float64 `json:"secs"`
	Pos        string  `json:"pos,omitempty"`
	Clause     string  `json:"clause,omitempty"`
}

func cmdCheck(prop, tier string) int {
	t0 := time.Now()
	seed := 0
	if s := os.Getenv("VERIF_SEED"); s != "" {
		if n, err := strconv.Atoi(s); err == nil {
			seed = n
		}
	}
	verif := filepath.Dir(*flagSpecs)
	evDir := filepath.Join(verif, "evidence")
	if *flagEvDir != "" {
		evDir = *flagEvDir
	}
	os.MkdirAll(filepath.Join(evDir, "replay"), 0o755)
	evFile := filepath.Join(evDir, prop+".json")
	fail := func(err error) int {
		fmt.Fprintf(os.Stderr, "govc: %v\n", err)
		// machinery failure is not a property violation; leave no stale evidence behind
		os.Remove(evFile)
		return 2
	}
	if old, _ := filepath.Glob(filepath.Join(evDir, "replay", prop+"__*.json")); old != nil {
		for _, f := range old {
			os.Remove(f)
		}
	}
	ss, err := loadSpecs(*flagRepo, *flagSpecs)
	if err != nil {
		return fail(err)
	}
	keys := ss.Props[prop]
	if len(keys) == 0 {
		return fail(fmt.Errorf("no contract set registered for property %s", prop))
	}
	var fkeys, lemmas []string
	for _, k := range keys {
		if i := strings.Index(k, "lemma:"); i >= 0 {
			lemmas = append(lemmas, k[i+6:])
		} else {
			fkeys = append(fkeys, k)
		}
	}
	w, err := loadWorld(*flagRepo, ss, pkgDirsOf(fkeys))
	if err != nil {
		// the tree does not compile: not a violation of the property
		return fail(err)
	}
	loadS := time.Since(t0).Seconds()
	gens, err := genFuncs(w, fkeys)
	if err != nil {
		return fail(err)
	}
	for _, ln := range lemmas {
		g, err := genLemma(w, ln)
		if err != nil {
			return fail(err)
		}
		gens = append(gens, g)
	}
	var obls []*Obl
	var warnings []string
	usedExt := map[string]bool{}
	var fnNames []string
	termMissing := []string{}
	termRange := []string{}
	for _, g := range gens {
		obls = append(obls, g.obls...)
		for _, wn := range g.warnings {
			warnings = append(warnings, g.key+": "+wn)
		}
		for k := range g.usedExt {
			usedExt[k] = true
		}
		fnNames = append(fnNames, g.key)
		for _, li := range g.loops {
			if li.spec.Dec == nil && (strings.HasPrefix(li.head.Comment, "rangeindex") || strings.HasPrefix(li.head.Comment, "rangeint") || strings.HasPrefix(li.head.Comment, "rangeiter")) {
				// a range loop over a slice, array, string, integer or map: the number of iterations is
				// bounded by the language (the operand is evaluated once); no decreases clause is needed
				termRange = append(termRange, fmt.Sprintf("%s loop %d", g.key, li.ord))
				continue
			}
			if li.spec.Dec == nil {
				termMissing = append(termMissing, fmt.Sprintf("%s loop %d", g.key, li.ord))
			}
		}
		if g.partialSkipped > 0 {
			warnings = append(warnings, fmt.Sprintf("%s: partial contract: only its call-site/nocall clauses are proved; %d other obligations (ensures, frame, safety, callee preconditions) NOT generated and its contract stays assumed", g.key, g.partialSkipped))
		}
		if g.nosafe > 0 {
			warnings = append(warnings, fmt.Sprintf("%s: %d memory-safety obligations NOT generated (contract says nosafety): safety of this function is not claimed", g.key, g.nosafe))
		}
		// vacuity guard: expected number of obligations
		if g.c != nil && g.c.Expect > 0 && len(g.obls) < g.c.Expect {
			obls = append(obls, &Obl{Name: g.key + "/vacuous/count", Fn: g.key, Kind: "vacuity", Verdict: "vacuous",
				Output: fmt.Sprintf("%d obligations generated, contract expects >= %d", len(g.obls), g.c.Expect), gen: g})
		}
	}
	tmp := *flagKeep
	if tmp == "" {
		tmp, _ = os.MkdirTemp("", "govc")
		defer os.RemoveAll(tmp)
	} else {
		os.MkdirAll(tmp, 0o755)
	}
	secs := 10
	if tier == "thorough" {
		secs = 60
	}
	if *flagSecs != 10 {
		secs = *flagSecs
	}
	cfg := &solveCfg{dir: tmp, secs: secs, seed: seed, par: 5, agree: tier == "thorough", maxSize: 400 << 10}
	solveAll(cfg, obls)
	// vacuity guard: every function must have a reachable exit (preconditions and invariants consistent)
	covers := coverChecks(cfg, gens)
	finds, fixed := loadFindings(filepath.Join(verif, "known_findings.txt"))
	_ = fixed
	nviol := 0
	discharged := 0
	perSolver := map[string]int{}
	var solverSecs float64
	var samples []evSample
	var failed []*Obl
	for _, o := range obls {
		solverSecs += o.Secs
		if o.Verdict == "unsat" {
			discharged++
			perSolver[o.Solver]++
		} else {
			failed = append(failed, o)
		}
	}
	for _, c := range covers {
		if c.Verdict == "vacuous" {
			failed = append(failed, c)
			obls = append(obls, c)
		}
	}
	sort.Slice(obls, func(i, j int) bool { return obls[i].Name < obls[j].Name })
	for i, o := range obls {
		if i < 12 || o.Verdict != "unsat" {
			samples = append(samples, evSample{o.Name, o.Kind, o.Verdict, o.Solver, round3(o.Secs), o.Pos, trunc(o.Src, 120)})
		}
	}
	var knownLines []string
	for _, o := range failed {
		// known finding?
		var kf *finding
		for i := range finds {
			if finds[i].Prop == prop && finds[i].Obligation == o.Name {
				kf = &finds[i]
			}
		}
		rep := map[string]any{"property": prop, "obligation": o.Name, "function": o.Fn, "kind": o.Kind, "position": o.Pos,
			"clause": o.Src, "verdict": o.Verdict, "solver": o.Solver, "solver_output": trunc(o.Output, 2000)}
		var rr ReplayResult
		if o.gen != nil && o.gen.fn != nil && o.Kind != "vacuity" && o.Verdict != "unsupported" {
			var block []string
			var tried []any
			for attempt := 0; attempt < 6; attempt++ {
				cex := o.findCex(cfg, block)
				if cex == nil {
					break
				}
				dir, _ := w.pkgDirOf(o.gen.fn.Pkg.Pkg)
				rr = replay(*flagRepo, filepath.Join(verif, "replay"), o.gen.fn, dir, cex, o.Kind, tmp)
				tried = append(tried, map[string]any{"model": cex, "replay": rr})
				if rr.Confirmed || !rr.Ran {
					break
				}
				block = append(block, cex.Block)
			}
			if !rr.Confirmed {
				dir, _ := w.pkgDirOf(o.gen.fn.Pkg.Pkg)
				if pr := replayProbe(*flagRepo, filepath.Join(verif, "replay"), o.gen.fn, dir, tmp); pr.Ran {
					rep["probe"] = pr
					if pr.Confirmed {
						rr = pr
					}
				}
			}
			if len(tried) > 0 {
				rep["candidates"] = tried
			} else {
				rep["candidates"] = "no model could be extracted (solver answered " + o.Verdict + ")"
			}
		}
		if kf != nil && knownFindingCovers(cfg, o, kf) {
			knownLines = append(knownLines, fmt.Sprintf("KNOWN-FINDING: property=%s %s (%s)", prop, kf.What, o.Name))
			continue
		}
		nviol++
		rpath := filepath.Join(evDir, "replay", prop+"__"+san(o.Name)+".json")
		b, _ := json.MarshalIndent(rep, "", " ")
		os.WriteFile(rpath, b, 0o644)
		line := fmt.Sprintf("VIOLATION property=%s replay=%s", prop, rpath)
		if !rr.Confirmed {
			line += " no-failing-input-found"
		}
		fmt.Printf("failed obligation %s [%s] at %s: %s\n", o.Name, o.Verdict, o.Pos, trunc(o.Src, 100))
		if rr.Confirmed {
			fmt.Printf("  replayed on the real code: %s\n", rr.What)
		}
		fmt.Println(line)
	}
	// bounded stand-ins (never counted as proved)
	var bounded []BoundedResult
	bspecs := ss.Bounded[prop]
	if os.Getenv("VERIF_NO_BOUNDED") != "" {
		bspecs = nil // selftest of proof obligations only
	}
	for _, spec := range bspecs {
		for _, br := range runBounded(*flagRepo, filepath.Join(verif, "replay"), spec, tier, tmp) {
			bounded = append(bounded, br)
			if !br.Ran {
				fmt.Fprintf(os.Stderr, "govc: bounded stand-in %s did not run:\n%s\n", spec, br.Output)
				return fail(fmt.Errorf("bounded stand-in %s did not run", spec))
			}
			if br.Failures > 0 {
				known := false
				for _, kf := range finds {
					if kf.Prop == prop && kf.Obligation == "bounded/"+br.Name && kf.Input != "" && strings.Contains(br.First, kf.Input) && br.Failures == 1 {
						known = true
						knownLines = append(knownLines, fmt.Sprintf("KNOWN-FINDING: property=%s %s (bounded/%s)", prop, kf.What, br.Name))
					}
				}
				if known {
					continue
				}
				nviol++
				rpath := filepath.Join(evDir, "replay", prop+"__bounded_"+san(br.Name)+".json")
				b, _ := json.MarshalIndent(map[string]any{"property": prop, "obligation": "bounded/" + br.Name, "bounded": br, "failing_input": br.First}, "", " ")
				os.WriteFile(rpath, b, 0o644)
				fmt.Printf("bounded stand-in %s: %d failures, first: %s\n", br.Name, br.Failures, br.First)
				line := fmt.Sprintf("VIOLATION property=%s replay=%s", prop, rpath)
				if strings.HasPrefix(br.First, "the stand-in did not finish") {
					line += " no-failing-input-found"
				}
				fmt.Println(line)
			}
		}
	}
	for _, l := range knownLines {
		fmt.Println(l)
	}
	var tb []string
	for k := range usedExt {
		tb = append(tb, "extern contract "+k)
	}
	sort.Strings(tb)
	tb = append(tb, "govc SSA->VC translation; go/ssa; SMT solvers")
	sort.Strings(fnNames)
	sort.Strings(termMissing)
	sort.Strings(termRange)
	cov := map[string]any{
		"obligations":              len(obls),
		"discharged":               discharged,
		"checker_cmd":              fmt.Sprintf("/verif/bin/govc check %s %s", prop, tier),
		"trusted_base":             tb,
		"samples":                  samples,
		"functions_under_contract": fnNames,
		"per_backend":              perSolver,
		"solver_seconds":           round3(solverSecs),
		"load_seconds":             round3(loadS),
		"query_time_limit_s":       secs,
		"termination_not_shown":    termMissing,
		"termination_range_loops":  termRange,
		"warnings":                 warnings,
		"functions_not_found":      missingFns,
		"cover_checks":             len(covers),
	}
	if len(bounded) > 0 {
		cov["bounded_standins"] = bounded
		cov["bounded_note"] = "bounded stand-ins are exhaustive runs of the real functions up to the stated bound; they are not counted in obligations/discharged"
	}
	if extra := propertyNotes[prop]; extra != nil {
		for k, v := range extra {
			cov[k] = v
		}
	}
	ev := map[string]any{
		"property_id": prop, "tier": tier, "seed": seed, "level": "proof",
		"coverage": cov, "assumptions": standingAssumptions,
		"wall_s": round3(time.Since(t0).Seconds()), "violations": nviol,
	}
	b, _ := json.MarshalIndent(ev, "", " ")
	if err := os.WriteFile(evFile, b, 0o644); err != nil {
		return fail(err)
	}
	fmt.Printf("%s %s: %d obligations, %d discharged, %d violations, %.1fs\n", prop, tier, len(obls), discharged, nviol, time.Since(t0).Seconds())
	if nviol > 0 {
		return 1
	}
	return 0
}

var propertyNotes = map[string]map[string]any{}

func round3(f float64) float64 { return float64(int(f*1000+0.5)) / 1000 }

// coverChecks: asserting false at the function's exits must not be provable.
func coverChecks(cfg *solveCfg, gens []*Gen) []*Obl {
	var out []*Obl
	ccfg := *cfg
	ccfg.secs = 3 // a cover query is expected to be satisfiable; only a quick unsat matters
	ccfg.agree = false
	var wg sync.WaitGroup
	for _, g := range gens {
		if g.fn == nil || len(g.exits) == 0 {
			continue
		}
		if g.c != nil && g.c.NoReturn {
			continue // a function that never returns normally has no reachable exit by contract
		}
		var rs []string
		for _, e := range g.exits {
			rs = append(rs, e.st.r)
		}
		o := &Obl{Name: g.key + "/vacuous/exit", Fn: g.key, Kind: "vacuity", ncmds: len(g.cmds), reach: or(rs...), goal: "false", gen: g,
			Src: "some return is reachable under the preconditions and invariants"}
		out = append(out, o)
		wg.Add(1)
		go func() {
			defer wg.Done()
			r := race(&ccfg, o.Name, o.query(""))
			if r.verdict == "unsat" {
				o.Verdict = "vacuous"
				o.Output = "every return is unreachable: preconditions, invariants or assumed contracts are contradictory"
			} else {
				o.Verdict = "reachable:" + r.verdict
			}
			o.Solver, o.Secs = r.solver, r.secs
		}()
	}
	wg.Wait()
	return out
}

// knownFindingCovers: the obligation discharges once the finding's input class is excluded.
func knownFindingCovers(cfg *solveCfg, o *Obl, kf *finding) bool {
	if kf.When == "" || o.gen == nil || o.gen.fn == nil {
		return false
	}
	e, err := parseExpr(kf.When)
	if err != nil {
		return false
	}
	var t string
	func() {
		defer func() {
			if recover() != nil {
				t = ""
			}
		}()
		env := o.gen.env(o.gen.entry, o.gen.params)
		t = env.tr(e).S
	}()
	if t == "" {
		return false
	}
	q := o.query("(assert (not " + t + "))\n")
	r := race(cfg, o.Name+".kf", q)
	return r.verdict == "unsat"
}

func genLemma(w *World, name string) (*Gen, error) {
	var ax *Axiom
	for _, a := range w.ss.Axioms {
		if a.Name == name && a.IsLemma {
			ax = a
		}
	}
	if ax == nil {
		return nil, fmt.Errorf("lemma %s not found", name)
	}
	g := &Gen{m: w.m, prog: w.prog, key: "lemma:" + name, world: w, noDecl: map[string]bool{}, epochs: map[string]string{}, kindOrd: map[string]int{}, usedExt: map[string]bool{}}
	st := &State{heap: map[string]string{}, locals: map[*ssa.Alloc]string{}, r: "true"}
	env := &Env{m: w.m, vars: map[string]Val{}, st: st, hget: g.heapGet}
	if ax.PkgDir != "" {
		path := modulePath + "/" + ax.PkgDir
		if p := w.pkgs[path]; p != nil {
			env.tpkg, env.spkg = p.Pkg, p
		}
	}
	var err error
	func() {
		defer func() {
			if r := recover(); r != nil {
				if se, ok := r.(specErr); ok {
					err = fmt.Errorf("lemma %s: %s", name, se.msg)
					return
				}
				panic(r)
			}
		}()
		for _, a := range w.ss.Axioms {
			use := !a.IsLemma && a.PkgDir != "" && a.PkgDir == ax.PkgDir
			for _, u := range ax.Uses {
				if u == a.Name {
					use = true
				}
			}
			if use && a != ax {
				g.emit("(assert " + env.tr(a.Body).S + ") ; " + a.Name)
			}
		}
		for _, h := range ax.Hints {
			t := env.tr(h).S
			g.obls = append(g.obls, &Obl{Name: g.key + "/hint", Fn: g.key, Kind: "hint", Src: h.String(), ncmds: len(g.cmds), reach: "true", goal: t, gen: g})
			g.emit("(assert " + t + ")")
		}
		goal := env.tr(ax.Body).S
		g.obls = append(g.obls, &Obl{Name: g.key, Fn: g.key, Kind: "lemma", Src: ax.Src, ncmds: len(g.cmds), reach: "true", goal: goal, gen: g})
	}()
	return g, err
}
