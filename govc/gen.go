package main

// VC generation over go/ssa: forward symbolic execution of the acyclic CFG
// (loops cut at their headers by invariants) with state merging at joins.
// Every assertion becomes one obligation: prefix of commands + reach + !goal.

import (
	"fmt"
	"go/token"
	"go/types"
	"sort"
	"strings"

	"golang.org/x/tools/go/ssa"
)

type Obl struct {
	Name   string
	Fn     string
	Kind   string // safe, requires, ensures, inv-entry, inv-preserved, decreases, lemma, unsupported, callsite, hint
	Pos    string
	Src    string
	ncmds  int
	reach  string
	goal   string
	gen    *Gen
	Params []string // SMT names of function inputs for counterexamples
	// results
	Verdict string // unsat (discharged), sat, unknown, timeout, unsupported
	Solver  string
	Secs    float64
	Model   map[string]string
	Output  string
	Cover   string
}

type loopInfo struct {
	head    *ssa.BasicBlock
	blocks  map[*ssa.BasicBlock]bool
	ord     int
	minPos  token.Pos
	spec    *LoopSpec
	headSt  *State
	headEnv map[string]Val
	decHead string
}

type Gen struct {
	m        *Mod
	prog     *ssa.Program
	fn       *ssa.Function
	c        *Contract
	key      string
	world    *World
	cmds     []string
	vals     map[ssa.Value]Val
	nfresh   int
	obls     []*Obl
	in, out  map[*ssa.BasicBlock]*State
	loops    map[*ssa.BasicBlock]*loopInfo
	backEdge map[[2]int]bool
	epochs   map[string]string // "comp_epoch" -> sort (initial heap constants used)
	partialSkipped int         // obligations not generated because the contract says partial
	nepoch   int
	warnings []string
	staleDropped []string // names removed from a scope because only a pre-loop definition was visible inside a loop that reassigns them
	callOrd  map[string]int
	kindOrd  map[string]int
	params   map[string]Val
	paramSMT []string
	entry    *State
	usedExt  map[string]bool
	curBlock *ssa.BasicBlock
	curSt    *State
	sharedSet map[string]bool
	fnFresh  bool
	nosafe   int
	thenMid  *State
	curInstr ssa.Instruction
	exits    []exitPoint
	uses     []*Axiom
	noDecl   map[string]bool
	alias    map[string][]string // renamed locals (alias.go)
	inl      *inlineFrame       // set while a helper's body is executed in place of a call (inline.go)
	inlineDepth int
	entryParams map[string]Val
	inlineStack []*ssa.Function
}

type exitPoint struct {
	st      *State
	results []Val
}

type unsupported struct{ msg string }

func (g *Gen) unsup(f string, a ...any) { panic(unsupported{fmt.Sprintf(f, a...)}) }

func (g *Gen) fresh(prefix string) string {
	g.nfresh++
	return fmt.Sprintf("%s_%d", prefix, g.nfresh)
}

func (g *Gen) emit(s string) { g.cmds = append(g.cmds, s) }

func (g *Gen) declare(prefix, sort string) string {
	n := g.fresh(prefix)
	g.emit("(declare-const " + n + " " + sort + ")")
	return n
}

func (g *Gen) define(prefix, sort, term string) string {
	if len(term) < 24 && !strings.Contains(term, "(") {
		return term
	}
	if (strings.HasPrefix(term, "(band ") || strings.HasPrefix(term, "(bandnot ") || strings.HasPrefix(term, "(bor ")) && len(term) < 80 {
		return term // kept inline so that nested masks can be rewritten
	}
	n := g.fresh(prefix)
	g.emit("(define-fun " + n + " () " + sort + " " + term + ")")
	return n
}

// assume adds a fact at the current point of st.
func (g *Gen) assume(st *State, fact string) {
	if fact == "true" {
		return
	}
	if strings.Contains(fact, "(forall ") || strings.Contains(fact, "(exists ") {
		g.emit("(assert " + implies(st.r, fact) + ")")
		return
	}
	st.r = g.define("r", "Bool", and(st.r, fact))
}

func (g *Gen) assert(st *State, kind, detail, goal, src string, pos token.Pos) {
	if kind == "safe" && g.c != nil && g.c.NoSafety {
		g.nosafe++
		return
	}
	if g.c != nil && g.c.Partial && kind != "callsite" && kind != "nocall" && !strings.HasPrefix(kind, "loop") {
		g.partialSkipped++
		return
	}
	g.kindOrd[kind+"/"+detail]++
	name := fmt.Sprintf("%s/%s/%s#%d", g.key, kind, detail, g.kindOrd[kind+"/"+detail])
	if detail == "" {
		name = fmt.Sprintf("%s/%s#%d", g.key, kind, g.kindOrd[kind+"/"+detail])
	}
	o := &Obl{Name: name, Fn: g.key, Kind: kind, Src: src, ncmds: len(g.cmds), reach: st.r, goal: goal, gen: g, Params: g.paramSMT}
	if pos.IsValid() {
		p := g.prog.Fset.Position(pos)
		o.Pos = fmt.Sprintf("%s:%d", p.Filename, p.Line)
	}
	g.obls = append(g.obls, o)
}

// assertExpr translates a contract clause at this point and asserts it. A clause that
// cannot be evaluated here (it names a variable that is not in scope at this point any
// more) is an obligation that fails by name, not a machinery error.
func (g *Gen) assertExpr(st *State, env *Env, kind, detail string, e *E, src string, pos token.Pos) {
	if g.c != nil && g.c.Partial && kind != "callsite" && kind != "nocall" && !strings.HasPrefix(kind, "loop") {
		g.partialSkipped++
		return
	}
	var t string
	var msg string
	func() {
		defer func() {
			if r := recover(); r != nil {
				if se, ok := r.(specErr); ok {
					msg = se.msg
					return
				}
				panic(r)
			}
		}()
		t = env.tr(e).S
	}()
	if msg != "" && e.K == "bin" && e.S == "==>" && len(e.A) == 2 {
		// an implication whose consequent cannot be evaluated here (it names something that
		// exists only where the antecedent holds, e.g. the variables captured by a returned
		// closure on the path that returns nil): the obligation is that the antecedent is
		// false on this path.  Only for asserted clauses, never for assumed ones.
		func() {
			defer func() {
				if r := recover(); r != nil {
					if _, ok := r.(specErr); ok {
						return
					}
					panic(r)
				}
			}()
			a := env.tr(e.A[0]).S
			t, msg = "(not "+a+")", ""
		}()
	}
	if msg != "" {
		g.kindOrd[kind+"/"+detail]++
		name := fmt.Sprintf("%s/%s/%s#%d", g.key, kind, detail, g.kindOrd[kind+"/"+detail])
		o := &Obl{Name: name, Fn: g.key, Kind: kind, Src: src, Verdict: "unevaluable", Output: "the clause cannot be evaluated at this point: " + msg, gen: g}
		if pos.IsValid() {
			p := g.prog.Fset.Position(pos)
			o.Pos = fmt.Sprintf("%s:%d", p.Filename, p.Line)
		}
		g.obls = append(g.obls, o)
		return
	}
	g.assert(st, kind, detail, t, src, pos)
}

func (g *Gen) heapGet(st *State, comp string) string {
	if t, ok := st.heap[comp]; ok {
		return t
	}
	ep := st.heap["@epoch"]
	if ep == "" {
		ep = "0"
	}
	n := comp + "_" + ep
	sort := g.m.comps[comp]
	if sort == "" {
		if comp == "alloc" {
			sort = "Int"
		} else {
			panic("unknown heap component " + comp)
		}
	}
	g.epochs[n] = sort
	return n
}

func (g *Gen) heapSet(st *State, comp, term string) {
	st.heap[comp] = g.define("h", g.compSort(comp), term)
}

func (g *Gen) compSort(comp string) string {
	if comp == "alloc" {
		return "Int"
	}
	return g.m.comps[comp]
}

func (g *Gen) havocAll(st *State) {
	g.nepoch++
	old := g.heapGet(st, "alloc")
	for k := range st.heap {
		delete(st.heap, k)
	}
	st.heap["@epoch"] = fmt.Sprintf("e%d", g.nepoch)
	// allocation counter only grows
	g.assume(st, "(>= "+g.heapGet(st, "alloc")+" "+old+")")
}

func (g *Gen) havocComp(st *State, comp string) {
	st.heap[comp] = g.declare("hv_"+comp, g.compSort(comp))
}

// wfComp: heap well-formedness for a freshly havocked component: slices stored in it refer
// to objects that exist in this state.
func (g *Gen) wfComp(st *State, comp string) {
	n, ok := st.heap[comp]
	if !ok {
		return
	}
	al := g.heapGet(st, "alloc")
	switch srt := g.compSort(comp); srt {
	case "(Array Int Slice)":
		g.emit(fmt.Sprintf("(assert (forall ((wfp Int)) (! (<= (sl-ref (select %s wfp)) %s) :pattern ((select %s wfp)))))", n, al, n))
	case "(Array Int (Array Int Slice))":
		g.emit(fmt.Sprintf("(assert (forall ((wfp Int) (wfi Int)) (! (<= (sl-ref (select (select %s wfp) wfi)) %s) :pattern ((select (select %s wfp) wfi)))))", n, al, n))
	default:
		const pre = "(Array Int (Array Int "
		if strings.HasPrefix(srt, pre) && strings.HasSuffix(srt, "))") {
			ss := srt[len(pre) : len(srt)-2]
			if stt, ok := g.m.structs[ss]; ok && !g.m.opaque[ss] {
				for fi := 0; fi < stt.NumFields(); fi++ {
					if g.m.sortOf(stt.Field(fi).Type()) == "Slice" {
						g.emit(fmt.Sprintf("(assert (forall ((wfp Int) (wfi Int)) (! (<= (sl-ref (%s.%s (select (select %s wfp) wfi))) %s) :pattern ((select (select %s wfp) wfi)))))", ss, fieldName(stt, fi), n, al, n))
					}
				}
			}
		}
	}
}

func (g *Gen) newRef(st *State) string {
	a := g.heapGet(st, "alloc")
	n := g.define("ref", "Int", add(a, "1"))
	st.heap["alloc"] = n
	return n
}

func (g *Gen) env(st *State, vars map[string]Val) *Env {
	return &Env{m: g.m, vars: vars, st: st, old: g.entry, tpkg: g.fn.Pkg.Pkg, spkg: g.fn.Pkg, hget: g.heapGet, gconst: g.constGlobal, alias: g.alias, entryParams: g.entryParams}
}

// ---- type constraints ----

func (g *Gen) wf(v string, t types.Type, allocT string) string {
	switch u := t.Underlying().(type) {
	case *types.Basic:
		switch u.Kind() {
		case types.Uint8:
			return and("(<= 0 "+v+")", "(<= "+v+" 255)")
		case types.Uint, types.Uint16, types.Uint32, types.Uint64, types.Uintptr:
			return "(<= 0 " + v + ")"
		case types.Int32:
			return and("(<= (- 2147483648) "+v+")", "(<= "+v+" 2147483647)")
		case types.String:
			return and("(<= 0 "+sOff(v)+")", "(<= "+sOff(v)+" "+sHi(v)+")")
		}
	case *types.Slice:
		return and("(<= 0 "+slRef(v)+")", "(<= "+slRef(v)+" "+allocT+")", "(<= 0 "+slOff(v)+")", "(<= 0 "+slLen(v)+")", "(<= "+slLen(v)+" "+slCap(v)+")",
			implies(eq(slRef(v), "0"), eq(slCap(v), "0")))
	case *types.Pointer, *types.Map:
		return and("(<= 0 "+v+")", "(<= "+v+" "+allocT+")")
	case *types.Interface:
		return "true" // boxed constants are negative ids, allocated boxes positive, nil is 0
	case *types.Signature, *types.Chan:
		return "(<= 0 " + v + ")"
	}
	return "true"
}

// ---- values ----

func (g *Gen) val(v ssa.Value) Val {
	switch x := v.(type) {
	case *ssa.Const:
		return g.constVal(x)
	case *ssa.Global:
		return Val{Loc: &Loc{Kind: "global", Comp: g.m.compGlobal(x), T: x.Type().(*types.Pointer).Elem()}, G: x.Type()}
	case *ssa.Function:
		return Val{Fn: x, G: x.Type(), Sort: "Int", S: "1"}
	case *ssa.Builtin:
		return Val{Bltn: x.Name()}
	}
	if r, ok := g.vals[v]; ok {
		return r
	}
	g.unsup("value %s (%T) used before definition", v.Name(), v)
	return Val{}
}

func (g *Gen) constVal(c *ssa.Const) Val {
	t := c.Type()
	if c.Value == nil {
		s := g.m.sortOf(t)
		return Val{S: g.m.zeroOfSort(s, t), Sort: s, G: t}
	}
	e := &Env{m: g.m}
	v := e.constVal(c.Value, t)
	v.G = t
	return v
}

func (g *Gen) setVal(v ssa.Value, s string, t types.Type) {
	sort := g.m.sortOf(t)
	g.vals[v] = Val{S: g.define("v_"+v.Name(), sort, s), Sort: sort, G: t}
}

// ---- locations ----

func (g *Gen) loadLoc(st *State, l *Loc) string {
	var base string
	switch l.Kind {
	case "local":
		base = st.locals[l.Alloc]
		if base == "" {
			g.unsup("load from uninitialised local %s", l.Alloc.Name())
		}
	case "field", "cell":
		base = sel(g.heapGet(st, l.Comp), l.Base)
	case "elem":
		base = sel(sel(g.heapGet(st, l.Comp), l.Base), l.Idx)
	case "global":
		base = g.heapGet(st, l.Comp)
	}
	for _, p := range l.Path {
		if p.Field >= 0 {
			base = structGet(g.m.sortOf(p.T), fieldName(p.St, p.Field), base)
		} else {
			base = sel(base, p.Idx)
		}
	}
	return base
}

func (g *Gen) updPath(cur string, path []pathStep, v string) string {
	if len(path) == 0 {
		return v
	}
	p := path[0]
	if p.Field >= 0 {
		ss := g.m.sortOf(p.T)
		if g.m.opaque[ss] {
			// a field of a struct from outside the verified module: the value becomes unknown
			return g.declare("opq", ss)
		}
		var parts []string
		for i := 0; i < p.St.NumFields(); i++ {
			f := structGet(ss, fieldName(p.St, i), cur)
			if i == p.Field {
				f = g.updPath(f, path[1:], v)
			}
			parts = append(parts, f)
		}
		return "(mk-" + ss + " " + strings.Join(parts, " ") + ")"
	}
	return store(cur, p.Idx, g.updPath(sel(cur, p.Idx), path[1:], v))
}

func (g *Gen) storeLoc(st *State, l *Loc, v string) {
	switch l.Kind {
	case "local":
		cur := st.locals[l.Alloc]
		st.locals[l.Alloc] = g.define("loc", g.m.sortOf(l.Alloc.Type().(*types.Pointer).Elem()), g.updPath(cur, l.Path, v))
	case "field", "cell":
		h := g.heapGet(st, l.Comp)
		g.heapSet(st, l.Comp, store(h, l.Base, g.updPath(sel(h, l.Base), l.Path, v)))
	case "elem":
		h := g.heapGet(st, l.Comp)
		a := sel(h, l.Base)
		g.heapSet(st, l.Comp, store(h, l.Base, store(a, l.Idx, g.updPath(sel(a, l.Idx), l.Path, v))))
	case "global":
		g.heapSet(st, l.Comp, g.updPath(g.heapGet(st, l.Comp), l.Path, v))
	}
}

// derefLoc turns a pointer value into a location.
func (g *Gen) derefLoc(p Val) *Loc {
	if p.Loc != nil {
		return p.Loc
	}
	pt, ok := p.G.Underlying().(*types.Pointer)
	if !ok {
		g.unsup("dereference of non-pointer %s", p.G)
	}
	et := pt.Elem()
	if _, ok := et.Underlying().(*types.Struct); ok {
		return &Loc{Kind: "structptr", Base: p.S, T: et}
	}
	if a, ok := et.Underlying().(*types.Array); ok {
		_ = a
		return &Loc{Kind: "arrayptr", Base: p.S, T: et}
	}
	s := g.m.sortOf(et)
	return &Loc{Kind: "cell", Base: p.S, Comp: g.m.compCell(s), T: et}
}

func (g *Gen) load(st *State, p Val) string {
	l := g.derefLoc(p)
	switch l.Kind {
	case "structptr":
		stt := l.T.Underlying().(*types.Struct)
		ss := g.m.sortOf(l.T)
		if g.m.opaque[ss] {
			c := g.m.compCell(ss)
			return sel(g.heapGet(st, c), l.Base)
		}
		if stt.NumFields() == 0 {
			return "mk-" + ss
		}
		var parts []string
		for i := 0; i < stt.NumFields(); i++ {
			c := g.m.compField(ss, fieldName(stt, i), g.m.sortOf(stt.Field(i).Type()))
			parts = append(parts, sel(g.heapGet(st, c), l.Base))
		}
		return "(mk-" + ss + " " + strings.Join(parts, " ") + ")"
	case "arrayptr":
		es := g.m.sortOf(l.T.Underlying().(*types.Array).Elem())
		return sel(g.heapGet(st, g.m.compSliceHeap(es)), l.Base)
	}
	return g.loadLoc(st, l)
}

func (g *Gen) storeTo(st *State, p Val, v string) {
	l := g.derefLoc(p)
	switch l.Kind {
	case "structptr":
		stt := l.T.Underlying().(*types.Struct)
		ss := g.m.sortOf(l.T)
		if g.m.opaque[ss] {
			c := g.m.compCell(ss)
			g.heapSet(st, c, store(g.heapGet(st, c), l.Base, v))
			return
		}
		for i := 0; i < stt.NumFields(); i++ {
			c := g.m.compField(ss, fieldName(stt, i), g.m.sortOf(stt.Field(i).Type()))
			g.heapSet(st, c, store(g.heapGet(st, c), l.Base, structGet(ss, fieldName(stt, i), v)))
		}
		return
	case "arrayptr":
		es := g.m.sortOf(l.T.Underlying().(*types.Array).Elem())
		c := g.m.compSliceHeap(es)
		g.heapSet(st, c, store(g.heapGet(st, c), l.Base, v))
		return
	}
	g.storeLoc(st, l, v)
}

// ---- CFG analysis ----

func (g *Gen) analyseLoops() {
	g.loops = map[*ssa.BasicBlock]*loopInfo{}
	g.backEdge = map[[2]int]bool{}
	for _, b := range g.fn.Blocks {
		for _, s := range b.Succs {
			if s.Dominates(b) {
				g.backEdge[[2]int{b.Index, s.Index}] = true
				li := g.loops[s]
				if li == nil {
					li = &loopInfo{head: s, blocks: map[*ssa.BasicBlock]bool{s: true}}
					g.loops[s] = li
				}
				// natural loop: nodes that reach b without passing s
				var stack []*ssa.BasicBlock
				if !li.blocks[b] {
					li.blocks[b] = true
					stack = append(stack, b)
				}
				for len(stack) > 0 {
					x := stack[len(stack)-1]
					stack = stack[:len(stack)-1]
					for _, p := range x.Preds {
						if !li.blocks[p] {
							li.blocks[p] = true
							stack = append(stack, p)
						}
					}
				}
			}
		}
	}
	var ls []*loopInfo
	for _, li := range g.loops {
		li.minPos = token.Pos(1 << 40)
		for b := range li.blocks {
			for _, in := range b.Instrs {
				if _, ok := in.(*ssa.DebugRef); ok {
					continue
				}
				if _, ok := in.(*ssa.Phi); ok {
					continue // a phi is positioned at the variable's declaration, not in the loop
				}
				if p := in.Pos(); p.IsValid() && p < li.minPos {
					li.minPos = p
				}
			}
		}
		ls = append(ls, li)
	}
	sort.Slice(ls, func(i, j int) bool {
		if ls[i].minPos != ls[j].minPos {
			return ls[i].minPos < ls[j].minPos
		}
		if len(ls[i].blocks) != len(ls[j].blocks) {
			return len(ls[i].blocks) > len(ls[j].blocks)
		}
		return ls[i].head.Index < ls[j].head.Index
	})
	for i, li := range ls {
		li.ord = i + 1
		if g.c != nil {
			li.spec = g.c.Loops[li.ord]
		}
		if li.spec == nil {
			li.spec = &LoopSpec{}
		}
	}
}

func (g *Gen) rpo() []*ssa.BasicBlock {
	seen := map[*ssa.BasicBlock]bool{}
	var post []*ssa.BasicBlock
	var dfs func(b *ssa.BasicBlock)
	dfs = func(b *ssa.BasicBlock) {
		seen[b] = true
		for i := len(b.Succs) - 1; i >= 0; i-- {
			s := b.Succs[i]
			if g.backEdge[[2]int{b.Index, s.Index}] || seen[s] {
				continue
			}
			dfs(s)
		}
		post = append(post, b)
	}
	dfs(g.fn.Blocks[0])
	if g.fn.Recover != nil && !seen[g.fn.Recover] {
		// recover block processed separately (panicking exit); skipped for now
	}
	for i, j := 0, len(post)-1; i < j; i, j = i+1, j-1 {
		post[i], post[j] = post[j], post[i]
	}
	return post
}

func (g *Gen) edgeCond(p, s *ssa.BasicBlock) string {
	last := p.Instrs[len(p.Instrs)-1]
	if iff, ok := last.(*ssa.If); ok {
		c := g.val(iff.Cond).S
		if p.Succs[0] == s && p.Succs[1] == s {
			return "true"
		}
		if p.Succs[0] == s {
			return c
		}
		return not(c)
	}
	return "true"
}

// loopMods: heap components and locals possibly modified inside the loop.
// dirty[c] is set when an object of c that existed before the loop may be written;
// components that are only written in objects allocated inside the loop keep their
// old objects across the loop-head havoc.
func (g *Gen) loopMods(li *loopInfo) (comps map[string]bool, dirty map[string]bool, all bool, locals map[*ssa.Alloc]bool) {
	comps = map[string]bool{}
	dirty = map[string]bool{}
	locals = map[*ssa.Alloc]bool{}
	mapComps := func(t types.Type) (string, string) {
		mt := t.Underlying().(*types.Map)
		ks, vs := g.m.sortOf(mt.Key()), g.m.sortOf(mt.Elem())
		if ks == "Str" {
			ks = "Int"
		}
		return g.m.compMap(ks, vs)
	}
	// ghost assignments attached to call sites: a call or go statement of that callee inside
	// the loop changes the ghost (over-approximated: any clause for a callee called in the loop)
	if g.c != nil {
		inLoop := map[string]bool{}
		var instrs []ssa.Instruction
		var collect func(f *ssa.Function, depth int)
		collect = func(f *ssa.Function, depth int) {
			for _, hb := range f.Blocks {
				for _, hin := range hb.Instrs {
					instrs = append(instrs, hin)
					if ci, ok := hin.(ssa.CallInstruction); ok && depth < maxInlineDepth {
						if hf, ok := ci.Common().Value.(*ssa.Function); ok && g.calleeContract(ci.Common()) == nil && g.inlinable(hf) {
							collect(hf, depth+1)
						}
					}
				}
			}
		}
		for b := range li.blocks {
			for _, in := range b.Instrs {
				instrs = append(instrs, in)
				// calls made by a helper that is executed in place count as calls in the loop
				if ci, ok := in.(ssa.CallInstruction); ok {
					if hf, ok := ci.Common().Value.(*ssa.Function); ok && g.calleeContract(ci.Common()) == nil && g.inlinable(hf) {
						collect(hf, 1)
					}
				}
			}
		}
		{
			for _, in := range instrs {
				switch x := in.(type) {
				case ssa.CallInstruction:
					cc := x.Common()
					n := calleeName(cc)
					inLoop[n] = true
					if _, isGo := in.(*ssa.Go); isGo {
						inLoop["go:"+n] = true
					}
					if u, ok := cc.Value.(*ssa.UnOp); ok {
						if dn := dynFieldName(u); dn != "" {
							inLoop["field:"+dn] = true
						}
					}
					if p, ok := cc.Value.(*ssa.Parameter); ok {
						inLoop["param:"+p.Name()] = true
					}
				}
			}
		}
		for _, cs := range g.c.Calls {
			if !inLoop[cs.Callee] {
				continue
			}
			for _, ga := range cs.Ghost {
				comps[ga.Comp] = true
				dirty[ga.Comp] = true
			}
			for _, ga := range cs.GhostAfter {
				comps[ga.Comp] = true
				dirty[ga.Comp] = true
			}
		}
	}
	var freshVal func(v ssa.Value) bool
	freshVal = func(v ssa.Value) bool {
		switch x := v.(type) {
		case *ssa.Alloc:
			if !li.blocks[x.Block()] {
				g.fnFresh = true // allocated by this function, but before the loop
			}
			return true
		case *ssa.MakeSlice:
			if !li.blocks[x.Block()] {
				g.fnFresh = true
			}
			return true
		case *ssa.MakeMap:
			if !li.blocks[x.Block()] {
				g.fnFresh = true
			}
			return true
		case *ssa.IndexAddr:
			return freshVal(x.X)
		case *ssa.FieldAddr:
			return freshVal(x.X)
		case *ssa.Slice:
			return freshVal(x.X)
		}
		return false
	}
	mark := func(tmp map[string]bool, fresh bool) {
		for c := range tmp {
			comps[c] = true
			if !fresh {
				dirty[c] = true
			}
		}
	}
	// a helper that is executed in place of its call (inline.go) contributes its own effects;
	// what it writes through its parameters may be an object that existed before the loop
	inHelper := 0
	var scan func(in ssa.Instruction)
	scanHelper := func(f *ssa.Function) {
		inHelper++
		for _, hb := range f.Blocks {
			for _, hin := range hb.Instrs {
				scan(hin)
			}
		}
		inHelper--
	}
	fv0 := freshVal
	freshVal = func(v ssa.Value) bool { return inHelper == 0 && fv0(v) }
	scan = func(in ssa.Instruction) {
			switch x := in.(type) {
			case *ssa.Store:
				tmp := map[string]bool{}
				g.addrComps(x.Addr, tmp, locals)
				mark(tmp, freshVal(x.Addr))
			case *ssa.MapUpdate:
				d, v := mapComps(x.Map.Type())
				mark(map[string]bool{d: true, v: true}, freshVal(x.Map))
			case *ssa.Alloc:
				if x.Heap || isArrayAlloc(x) {
					comps["alloc"] = true
					tmp := map[string]bool{}
					g.allocComps(x, tmp)
					mark(tmp, true)
				} else {
					locals[x] = true
				}
			case *ssa.MakeSlice:
				comps["alloc"] = true
				comps[g.m.compSliceHeap(g.m.sortOf(x.Type().Underlying().(*types.Slice).Elem()))] = true
			case *ssa.Convert:
				if _, ok := x.Type().Underlying().(*types.Slice); ok {
					comps["alloc"] = true
					comps[g.m.compSliceHeap("Int")] = true
				}
			case *ssa.Range, *ssa.Next:
				g.m.comps["It"] = "(Array Int Int)"
				comps["alloc"] = true
				mark(map[string]bool{"It": true}, false)
			case *ssa.MakeMap, *ssa.MakeClosure, *ssa.MakeInterface, *ssa.MakeChan:
				comps["alloc"] = true
				if mm, ok := x.(*ssa.MakeMap); ok {
					d, v := mapComps(mm.Type())
					comps[d], comps[v] = true, true
				}
			case ssa.CallInstruction:
				cc := x.Common()
				if b, ok := cc.Value.(*ssa.Builtin); ok {
					switch b.Name() {
					case "append", "copy":
						comps["alloc"] = true
						if sl, ok := cc.Args[0].Type().Underlying().(*types.Slice); ok {
							mark(map[string]bool{g.m.compSliceHeap(g.m.sortOf(sl.Elem())): true}, b.Name() == "copy" && freshVal(cc.Args[0]))
						}
					case "delete":
						d, v := mapComps(cc.Args[0].Type())
						mark(map[string]bool{d: true, v: true}, false)
					}
					return
				}
				ct := g.calleeContract(cc)
				if ct != nil && ct.NoReturn {
					return // control never comes back from this call: no effect on later iterations
				}
				if ct == nil && inHelper < maxInlineDepth {
					if f, ok := cc.Value.(*ssa.Function); ok && g.inlinable(f) {
						scanHelper(f)
						return
					}
				}
				if ct == nil || (!ct.ModSet) || ct.ModAll {
					all = true
					return
				}
				if !ct.Pure {
					comps["alloc"] = true
				}
				mods := ct.Modifies
				if ct.Then != nil {
					mods = append(append([]string(nil), mods...), ct.Then.Modifies...) // second phase of a blocking call
				}
				for _, mcomp := range mods {
					tmp := map[string]bool{}
					for _, c := range g.expandMod(mcomp) {
						tmp[c] = true
					}
					mark(tmp, strings.HasPrefix(mcomp, "new "))
				}
			}
	}
	sharedTouched := false
	sharedRead := map[string]bool{}
	for b := range li.blocks {
		for _, in := range b.Instrs {
			scan(in)
			if _, isCall := in.(ssa.CallInstruction); isCall {
				sharedTouched = true
			}
			if u, ok := in.(*ssa.UnOp); ok && u.Op == token.MUL {
				tmp := map[string]bool{}
				g.addrComps(u.X, tmp, map[*ssa.Alloc]bool{})
				for c := range tmp {
					sharedRead[c] = true
				}
			}
		}
	}
	// other goroutines run at every interference point inside the loop (around calls, and
	// inside blocking calls while the lock is released): every shared component is unknown
	// again at the loop head, beyond what the loop invariants and the global invariants say
	// (also the ones the loop's own code does not touch: the global-invariant obligations of
	// its steps read them)
	if sh := g.shared(); len(sh) > 0 && sharedTouched {
		_ = sharedRead
		for c := range sh {
			comps[c] = true
			dirty[c] = true
		}
	}
	return
}

func isArrayAlloc(a *ssa.Alloc) bool {
	_, ok := a.Type().(*types.Pointer).Elem().Underlying().(*types.Array)
	return ok
}

func (g *Gen) allocComps(x *ssa.Alloc, comps map[string]bool) {
	et := x.Type().(*types.Pointer).Elem()
	switch u := et.Underlying().(type) {
	case *types.Struct:
		ss := g.m.sortOf(et)
		if g.m.opaque[ss] {
			comps[g.m.compCell(ss)] = true
			return
		}
		for i := 0; i < u.NumFields(); i++ {
			comps[g.m.compField(ss, fieldName(u, i), g.m.sortOf(u.Field(i).Type()))] = true
		}
	case *types.Array:
		comps[g.m.compSliceHeap(g.m.sortOf(u.Elem()))] = true
	default:
		comps[g.m.compCell(g.m.sortOf(et))] = true
	}
}

func (g *Gen) addrComps(addr ssa.Value, comps map[string]bool, locals map[*ssa.Alloc]bool) {
	switch a := addr.(type) {
	case *ssa.Alloc:
		if a.Heap || isArrayAlloc(a) {
			g.allocComps(a, comps)
		} else {
			locals[a] = true
		}
	case *ssa.FieldAddr:
		if root := rootAlloc(a.X); root != nil && !root.Heap && !isArrayAlloc(root) {
			locals[root] = true
			return
		}
		if ia, ok := a.X.(*ssa.IndexAddr); ok {
			// a field of a slice/array element lives in the element heap
			g.addrComps(ia, comps, locals)
			return
		}
		pt := a.X.Type().Underlying().(*types.Pointer).Elem()
		st := pt.Underlying().(*types.Struct)
		comps[g.m.compField(g.m.sortOf(pt), fieldName(st, a.Field), g.m.sortOf(st.Field(a.Field).Type()))] = true
		if _, ok := a.X.(*ssa.FieldAddr); ok {
			g.addrComps(a.X, comps, locals)
		}
	case *ssa.IndexAddr:
		var et types.Type
		switch u := a.X.Type().Underlying().(type) {
		case *types.Slice:
			et = u.Elem()
		case *types.Pointer:
			et = u.Elem().Underlying().(*types.Array).Elem()
		}
		comps[g.m.compSliceHeap(g.m.sortOf(et))] = true
	case *ssa.Global:
		comps[g.m.compGlobal(a)] = true
	default:
		// store through an arbitrary pointer value
		pt := addr.Type().Underlying().(*types.Pointer).Elem()
		if st, ok := pt.Underlying().(*types.Struct); ok {
			ss := g.m.sortOf(pt)
			for i := 0; i < st.NumFields(); i++ {
				comps[g.m.compField(ss, fieldName(st, i), g.m.sortOf(st.Field(i).Type()))] = true
			}
		} else {
			comps[g.m.compCell(g.m.sortOf(pt))] = true
		}
	}
}

func rootAlloc(v ssa.Value) *ssa.Alloc {
	for {
		switch x := v.(type) {
		case *ssa.Alloc:
			return x
		case *ssa.FieldAddr:
			v = x.X
		default:
			return nil
		}
	}
}

func (g *Gen) expandMod(pat string) []string {
	// component name, possibly with trailing * wildcard; ghost names as is
	pat = strings.TrimSpace(strings.TrimPrefix(pat, "new "))
	var out []string
	if strings.HasSuffix(pat, "*") {
		pre := strings.TrimSuffix(pat, "*")
		for _, c := range g.m.compNames() {
			if strings.HasPrefix(c, pre) {
				out = append(out, c)
			}
		}
		return out
	}
	if pat == "bytes" {
		return []string{g.m.compSliceHeap("Int"), "alloc"}
	}
	if strings.HasPrefix(pat, "C_") {
		if _, ok := g.m.comps[pat]; !ok {
			switch pat[2:] {
			case "Str", "Int", "Bool", "Slice":
				g.m.compCell(pat[2:])
			}
		}
	}
	if strings.HasPrefix(pat, "H_") {
		if _, ok := g.m.comps[pat]; !ok {
			switch pat[2:] {
			case "Str", "Int", "Bool":
				g.m.compSliceHeap(pat[2:])
			default:
				if _, ok := g.m.structs[pat[2:]]; ok {
					g.m.compSliceHeap(pat[2:])
				}
			}
		}
	}
	if _, ok := g.m.comps[pat]; !ok && strings.HasPrefix(pat, "F_") {
		// a field component that no code has touched yet: F_<struct sort>_<field>
		for ss, st := range g.m.structs {
			if strings.HasPrefix(pat, "F_"+ss+"_") {
				f := pat[len("F_"+ss+"_"):]
				for i := 0; i < st.NumFields(); i++ {
					if fieldName(st, i) == f {
						g.m.compField(ss, f, g.m.sortOf(st.Field(i).Type()))
					}
				}
			}
		}
	}
	if _, ok := g.m.comps[pat]; !ok && pat != "alloc" {
		g.warnings = append(g.warnings, "modifies: unknown component "+pat)
		return nil
	}
	return []string{pat}
}
