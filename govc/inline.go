package main

import (
	"fmt"
	"go/types"
	"strings"

	"golang.org/x/tools/go/ssa"
)

// Automatic inlining of small helpers.  A call of a function of this module that has no
// contract used to be a call with unknown effects (everything havocked, frame lost).  When
// the callee is loop-free, has no defer / go / select / recover and is not recursive, its
// body is executed symbolically in the caller's state instead: exact, so sound, and it keeps
// the proof of a function intact when a maintainer moves a few statements into a helper.
// Calls inside the helper count as calls of the caller (same ordinals as before the move,
// for a verbatim extraction), so call-site clauses keep applying; names in such clauses are
// resolved in the helper's scope.

const maxInlineDepth = 3

func (g *Gen) inlinable(callee *ssa.Function) bool {
	if callee == nil || callee.Blocks == nil || callee.Pkg == nil || g.inlineDepth >= maxInlineDepth {
		return false
	}
	if !strings.HasPrefix(callee.Pkg.Pkg.Path(), modulePath) || callee.Recover != nil || len(callee.FreeVars) > 0 || callee.Synthetic != "" {
		return false
	}
	for f := g.fn; f != nil; f = f.Parent() {
		if f == callee {
			return false
		}
	}
	for _, f := range g.inlineStack {
		if f == callee {
			return false
		}
	}
	n := 0
	for _, b := range callee.Blocks {
		for _, in := range b.Instrs {
			n++
			switch in.(type) {
			case *ssa.Defer, *ssa.Go, *ssa.RunDefers, *ssa.Select:
				return false
			}
		}
	}
	if n > 400 {
		return false
	}
	// loop-free: no back edge in a depth-first traversal
	state := map[*ssa.BasicBlock]int{}
	ok := true
	var dfs func(b *ssa.BasicBlock)
	dfs = func(b *ssa.BasicBlock) {
		state[b] = 1
		for _, s := range b.Succs {
			switch state[s] {
			case 0:
				dfs(s)
			case 1:
				ok = false
			}
		}
		state[b] = 2
	}
	dfs(callee.Blocks[0])
	return ok
}

type inlineFrame struct {
	exits []exitPoint
}

func (g *Gen) inlineCall(x ssa.Value, callee *ssa.Function, args []Val, st *State) {
	// save the caller's per-function view
	sFn, sIn, sOut, sLoops, sBack := g.fn, g.in, g.out, g.loops, g.backEdge
	sBlock, sSt, sInstr, sParams, sInl := g.curBlock, g.curSt, g.curInstr, g.params, g.inl
	defer func() {
		g.fn, g.in, g.out, g.loops, g.backEdge = sFn, sIn, sOut, sLoops, sBack
		g.curBlock, g.curSt, g.curInstr, g.params, g.inl = sBlock, sSt, sInstr, sParams, sInl
		g.inlineDepth--
		g.inlineStack = g.inlineStack[:len(g.inlineStack)-1]
	}()
	g.inlineDepth++
	g.inlineStack = append(g.inlineStack, callee)
	g.fn = callee
	g.in, g.out = map[*ssa.BasicBlock]*State{}, map[*ssa.BasicBlock]*State{}
	g.loops, g.backEdge = map[*ssa.BasicBlock]*loopInfo{}, map[[2]int]bool{}
	fr := &inlineFrame{}
	g.inl = fr
	np := map[string]Val{}
	for k, v := range sParams {
		np[k] = v
	}
	for i, p := range callee.Params {
		if i < len(args) {
			g.vals[p] = args[i]
			np[p.Name()] = args[i]
		}
	}
	g.params = np
	cur := st.clone()
	for _, b := range g.rpo() {
		g.curBlock = b
		var bst *State
		if b.Index == 0 {
			bst = cur
		} else {
			bst = g.merge(b, b.Preds)
		}
		g.in[b] = bst.clone()
		g.block(b, bst)
		g.out[b] = bst
	}
	// join the returns
	var live []exitPoint
	for _, e := range fr.exits {
		if e.st.r != "false" {
			live = append(live, e)
		}
	}
	sig := callee.Signature
	nres := sig.Results().Len()
	if len(live) == 0 {
		st.r = "false"
		g.bindResults(x, sig, st, nil)
		return
	}
	var merged *State
	var res []Val
	if len(live) == 1 {
		merged, res = live[0].st, live[0].results
	} else {
		var sts []*State
		var es []string
		for _, e := range live {
			sts = append(sts, e.st)
			es = append(es, e.st.r)
		}
		merged = g.mergeStates(sts)
		for i := 0; i < nres; i++ {
			var ts []string
			v0 := live[0].results[i]
			for _, e := range live {
				v := e.results[i]
				if v.Loc != nil || v.Fn != nil || v.Tup != nil || v.Sort != v0.Sort {
					g.unsup("inlined helper %s returns addresses or closures on several paths", callee.Name())
				}
				ts = append(ts, v.S)
			}
			res = append(res, Val{S: g.define("ir", v0.Sort, g.mergeTermsRaw(es, ts)), Sort: v0.Sort, G: sig.Results().At(i).Type()})
		}
	}
	// the caller continues in the joined state
	*st = *merged
	if x != nil {
		switch nres {
		case 0:
		case 1:
			g.vals[x] = res[0]
		default:
			g.vals[x] = Val{Tup: res}
		}
	}
}

// mergeStates joins states reached on different paths (their path conditions are their r).
func (g *Gen) mergeStates(ins []*State) *State {
	n := &State{heap: map[string]string{}, locals: map[*ssa.Alloc]string{}}
	var es []string
	for _, in := range ins {
		es = append(es, in.r)
	}
	n.r = g.define("r", "Bool", or(es...))
	keys := map[string]bool{}
	for _, in := range ins {
		for k := range in.heap {
			keys[k] = true
		}
	}
	ep := ins[0].heap["@epoch"]
	same := true
	for _, in := range ins {
		if in.heap["@epoch"] != ep {
			same = false
		}
	}
	if !same {
		for c := range g.m.comps {
			keys[c] = true
		}
		keys["alloc"] = true
		g.nepoch++
		n.heap["@epoch"] = fmt.Sprintf("e%d", g.nepoch)
	} else if ep != "" {
		n.heap["@epoch"] = ep
	}
	delete(keys, "@epoch")
	for _, k := range sortedBoolKeys(keys) {
		var ts []string
		for _, in := range ins {
			ts = append(ts, g.heapGet(in, k))
		}
		n.heap[k] = g.mergeTerms("mh", g.compSort(k), es, ts)
	}
	lkeys := map[*ssa.Alloc]bool{}
	for _, in := range ins {
		for k := range in.locals {
			lkeys[k] = true
		}
	}
	for k := range lkeys {
		var ts []string
		ok := true
		for _, in := range ins {
			t, has := in.locals[k]
			if !has {
				ok = false
			}
			ts = append(ts, t)
		}
		if ok {
			n.locals[k] = g.mergeTerms("ml", g.m.sortOf(k.Type().(*types.Pointer).Elem()), es, ts)
		}
	}
	seen := map[*ssa.Defer]bool{}
	for _, in := range ins {
		for _, d := range in.defers {
			if !seen[d.call] {
				seen[d.call] = true
				n.defers = append(n.defers, d)
			}
		}
	}
	return n
}
