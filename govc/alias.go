package main

import (
	"encoding/json"
	"go/ast"
	"go/token"
	"go/types"
	"os"
	"path/filepath"
	"sort"
	"strings"

	"golang.org/x/tools/go/ssa"
)

// Renamed locals.  Contract clauses name local variables of the functions they are
// attached to.  A pure renaming of a local is harmless to every property, so the engine
// tolerates it: /verif/specs/locals.json records, for every function under contract, its
// declared variables (parameters, results, locals; name and type, in source order) as they
// were when the contracts were written.  When a clause names a variable the function no
// longer declares, and the recorded declarations of that type line up with the current ones
// except for names that are new, the clause is read with the new name.  Nothing else
// changes: a name that still exists is always resolved by name, and a clause evaluated
// through an alias still has to be proved.

type localDecl struct {
	Name string `json:"n"`
	Type string `json:"t"`
}

func outerFn(fn *ssa.Function) *ssa.Function {
	for fn.Parent() != nil {
		fn = fn.Parent()
	}
	return fn
}

// localDecls lists the variables declared in the outermost function enclosing fn.
func (w *World) localDecls(fn *ssa.Function) []localDecl {
	o := outerFn(fn)
	syn := o.Syntax()
	if syn == nil || o.Pkg == nil {
		return nil
	}
	info := w.tinfo[o.Pkg.Pkg.Path()]
	if info == nil {
		return nil
	}
	type pd struct {
		pos token.Pos
		d   localDecl
	}
	var ds []pd
	qual := func(p *types.Package) string { return p.Name() }
	ast.Inspect(syn, func(n ast.Node) bool {
		id, ok := n.(*ast.Ident)
		if !ok || id.Name == "_" {
			return true
		}
		if v, ok := info.Defs[id].(*types.Var); ok && !v.IsField() {
			ds = append(ds, pd{id.Pos(), localDecl{id.Name, types.TypeString(v.Type(), qual)}})
		}
		return true
	})
	sort.Slice(ds, func(i, j int) bool { return ds[i].pos < ds[j].pos })
	out := make([]localDecl, len(ds))
	for i, d := range ds {
		out[i] = d.d
	}
	return out
}

func (w *World) fnKey(fn *ssa.Function) string {
	dir, ok := w.pkgDirOf(fn.Pkg.Pkg)
	if !ok {
		return ""
	}
	return dir + "/" + fnShort(fn)
}

var baselineLocals map[string][]localDecl

func loadBaselineLocals(specDir string) {
	baselineLocals = map[string][]localDecl{}
	b, err := os.ReadFile(filepath.Join(specDir, "locals.json"))
	if err != nil {
		return
	}
	json.Unmarshal(b, &baselineLocals)
}

// aliasesFor maps recorded names that the function no longer declares to their new names.
func (w *World) aliasesFor(fn *ssa.Function) map[string][]string {
	if fn.Pkg == nil {
		return nil
	}
	base := baselineLocals[w.fnKey(outerFn(fn))]
	if len(base) == 0 {
		return nil
	}
	cur := w.localDecls(fn)
	baseNames, curNames := map[string]bool{}, map[string]bool{}
	for _, d := range base {
		baseNames[d.Name] = true
	}
	for _, d := range cur {
		curNames[d.Name] = true
	}
	byType := func(ds []localDecl) map[string][]string {
		m := map[string][]string{}
		for _, d := range ds {
			m[d.Type] = append(m[d.Type], d.Name)
		}
		return m
	}
	bt, ct := byType(base), byType(cur)
	// a recorded name declared several times (two case-local `start`s) may have several new
	// names; the one in scope where the clause is evaluated is taken, if it is the only one
	alias := map[string][]string{}
	add := func(from, to string) {
		if from == to || baseNames[to] {
			return // only names that are new can stand for a recorded one
		}
		for _, x := range alias[from] {
			if x == to {
				return
			}
		}
		alias[from] = append(alias[from], to)
	}
	for t, bs := range bt {
		cs := ct[t]
		if len(bs) == len(cs) {
			for i := range bs {
				add(bs[i], cs[i])
			}
			continue
		}
		// a declaration was added or removed as well: pair the vanished names with the new ones in order
		var gone, fresh []string
		seen := map[string]bool{}
		for _, n := range bs {
			if !curNames[n] && !seen[n] {
				gone = append(gone, n)
				seen[n] = true
			}
		}
		seen = map[string]bool{}
		for _, n := range cs {
			if !baseNames[n] && !seen[n] {
				fresh = append(fresh, n)
				seen[n] = true
			}
		}
		if len(gone) == len(fresh) {
			for i := range gone {
				add(gone[i], fresh[i])
			}
		}
	}
	if len(alias) == 0 {
		return nil
	}
	return alias
}

// cmdLocals prints the declarations of every function under contract (the content of specs/locals.json).
func cmdLocals() int {
	ss, err := loadSpecs(*flagRepo, *flagSpecs)
	if err != nil {
		os.Stderr.WriteString(err.Error() + "\n")
		return 2
	}
	dirs := map[string]bool{}
	var keys []string
	for key, c := range ss.Contracts {
		if c.Extern || !strings.Contains(key, "/") || strings.HasPrefix(key, "param:") || strings.HasPrefix(key, "@") {
			continue
		}
		i := strings.LastIndex(key, "/")
		if strings.HasPrefix(key[i+1:], "lemma:") {
			continue
		}
		keys = append(keys, key)
		dirs[key[:i]] = true
	}
	var dl []string
	for d := range dirs {
		dl = append(dl, d)
	}
	sort.Strings(dl)
	w, err := loadWorld(*flagRepo, ss, dl)
	if err != nil {
		os.Stderr.WriteString(err.Error() + "\n")
		return 2
	}
	out := map[string][]localDecl{}
	for _, key := range keys {
		fn := w.findFn(key)
		if fn == nil {
			continue
		}
		o := outerFn(fn)
		k := w.fnKey(o)
		if _, ok := out[k]; !ok {
			out[k] = w.localDecls(o)
		}
	}
	b, _ := json.MarshalIndent(out, "", " ")
	os.Stdout.Write(append(b, '\n'))
	return 0
}
