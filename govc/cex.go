package main

// Counterexample extraction and replay on the real code.

import (
	"bytes"
	"context"
	"encoding/json"
	"fmt"
	"go/types"
	"os"
	"os/exec"
	"path/filepath"
	"regexp"
	"strconv"
	"strings"
	"time"

	"golang.org/x/tools/go/ssa"
)

const cexMaxLen = 24

type cexInput struct {
	Name  string
	Type  string
	GoLit string
}

type Cex struct {
	Inputs []cexInput
	Solver string
	Raw    string `json:"-"`
	Block  string `json:"-"`
}

type sx struct {
	atom string
	list []*sx
}

func parseSx(s string) []*sx {
	var stack [][]*sx
	cur := []*sx{}
	i := 0
	for i < len(s) {
		c := s[i]
		switch {
		case c == '(':
			stack = append(stack, cur)
			cur = []*sx{}
			i++
		case c == ')':
			n := &sx{list: cur}
			if n.list == nil {
				n.list = []*sx{}
			}
			if len(stack) == 0 {
				return cur
			}
			cur = append(stack[len(stack)-1], n)
			stack = stack[:len(stack)-1]
			i++
		case c == ' ' || c == '\n' || c == '\t' || c == '\r':
			i++
		case c == '"':
			j := i + 1
			for j < len(s) && s[j] != '"' {
				j++
			}
			cur = append(cur, &sx{atom: s[i:min(j+1, len(s))]})
			i = j + 1
		default:
			j := i
			for j < len(s) && !strings.ContainsRune("() \n\t\r", rune(s[j])) {
				j++
			}
			cur = append(cur, &sx{atom: s[i:j]})
			i = j
		}
	}
	return cur
}

func (x *sx) intVal() (int64, bool) {
	if x.list == nil {
		n, err := strconv.ParseInt(x.atom, 10, 64)
		return n, err == nil
	}
	if len(x.list) == 2 && x.list[0].atom == "-" {
		n, ok := x.list[1].intVal()
		return -n, ok
	}
	return 0, false
}

type cexVar struct {
	name  string
	typ   types.Type
	terms []string // SMT terms requested
	build func(vals []*sx) (string, bool)
}

func (g *Gen) cexVars() (vars []cexVar, arrays []string, bounds string, ok bool) {
	ok = true
	var bnd []string
	for _, p := range g.fn.Params {
		v := g.vals[p]
		n := "p_" + san(p.Name())
		_ = v
		switch u := p.Type().Underlying().(type) {
		case *types.Basic:
			switch {
			case u.Info()&types.IsString != 0:
				arr := "(s-arr " + n + ")"
				arrays = append(arrays, arr)
				terms := []string{"(- (s-hi " + n + ") (s-lo " + n + "))"}
				for i := 0; i < cexMaxLen; i++ {
					terms = append(terms, fmt.Sprintf("(select %s (+ (s-lo %s) %d))", arr, n, i))
				}
				bnd = append(bnd, fmt.Sprintf("(assert (and (<= (s-hi %s) %d) (= (s-lo %s) 0)))", n, cexMaxLen, n))
				vars = append(vars, cexVar{p.Name(), p.Type(), terms, func(vals []*sx) (string, bool) {
					b, ok := bytesOf(vals)
					return strconv.Quote(string(b)), ok
				}})
			case u.Info()&types.IsInteger != 0:
				vars = append(vars, cexVar{p.Name(), p.Type(), []string{n}, func(vals []*sx) (string, bool) {
					x, ok := vals[0].intVal()
					return fmt.Sprintf("%s(%d)", u.Name(), x), ok
				}})
			case u.Info()&types.IsBoolean != 0:
				vars = append(vars, cexVar{p.Name(), p.Type(), []string{n}, func(vals []*sx) (string, bool) {
					return vals[0].atom, vals[0].atom == "true" || vals[0].atom == "false"
				}})
			default:
				ok = false
			}
		case *types.Slice:
			if b, isB := u.Elem().Underlying().(*types.Basic); isB && b.Kind() == types.Uint8 {
				arr := "(select H_Int_0 (sl-ref " + n + "))"
				g.m.compSliceHeap("Int")
				g.epochs["H_Int_0"] = g.m.comps["H_Int"]
				arrays = append(arrays, arr)
				terms := []string{"(sl-len " + n + ")", "(sl-ref " + n + ")"}
				for i := 0; i < cexMaxLen; i++ {
					terms = append(terms, fmt.Sprintf("(select %s (+ (sl-off %s) %d))", arr, n, i))
				}
				bnd = append(bnd, fmt.Sprintf("(assert (and (<= (sl-len %s) %d) (= (sl-off %s) 0)))", n, cexMaxLen, n))
				vars = append(vars, cexVar{p.Name(), p.Type(), terms, func(vals []*sx) (string, bool) {
					ref, _ := vals[1].intVal()
					b, ok := bytesOf(append([]*sx{vals[0]}, vals[2:]...))
					if ref == 0 {
						return "[]byte(nil)", ok
					}
					return "[]byte(" + strconv.Quote(string(b)) + ")", ok
				}})
			} else {
				ok = false
			}
		default:
			ok = false
		}
	}
	return vars, arrays, strings.Join(bnd, "\n") + "\n", ok
}

func bytesOf(vals []*sx) ([]byte, bool) {
	n, ok := vals[0].intVal()
	if !ok || n < 0 || int(n) > len(vals)-1 {
		return nil, false
	}
	var b []byte
	for i := 0; i < int(n); i++ {
		x, ok := vals[1+i].intVal()
		if !ok || x < 0 || x > 255 {
			return nil, false
		}
		b = append(b, byte(x))
	}
	return b, true
}

// findCex asks z3 for a model of a failed obligation's query.
func (o *Obl) findCex(cfg *solveCfg, block []string) *Cex {
	g := o.gen
	if g == nil || g.fn == nil {
		return nil
	}
	vars, arrays, bounds, ok := g.cexVars()
	if !ok || len(vars) == 0 {
		return nil
	}
	var terms []string
	for _, v := range vars {
		terms = append(terms, v.terms...)
	}
	post := "(get-value (" + strings.Join(terms, " ") + "))\n"
	q := boundQuery(o.queryWith(arrays, bounds+strings.Join(block, "\n")+"\n", post))
	file := filepath.Join(cfg.dir, san(o.Name)+".cex.smt2")
	if os.WriteFile(file, []byte(q), 0o644) != nil {
		return nil
	}
	for _, sp := range solvers[:2] {
		ctx, cancel := context.WithTimeout(context.Background(), time.Duration(cfg.secs+2)*time.Second)
		argv := sp.argv(file, cfg.secs, cfg.seed)
		cmd := exec.CommandContext(ctx, argv[0], argv[1:]...)
		var out bytes.Buffer
		cmd.Stdout = &out
		cmd.Stderr = &out
		_ = cmd.Run()
		cancel()
		s := dropWarnings(out.String())
		first, rest, _ := strings.Cut(strings.TrimSpace(s), "\n")
		if first != "sat" && first != "unknown" {
			continue
		}
		top := parseSx(rest)
		if len(top) == 0 || top[0].list == nil || len(top[0].list) != len(terms) {
			continue
		}
		var vals []*sx
		for _, pr := range top[0].list {
			if len(pr.list) != 2 {
				vals = nil
				break
			}
			vals = append(vals, pr.list[1])
		}
		if vals == nil {
			continue
		}
		cex := &Cex{Solver: sp.name + ":" + first, Raw: trunc(rest, 2000)}
		// blocking clause: some input differs (sequences: length or one of the first len bytes)
		var diffs []string
		bi := 0
		for _, v := range vars {
			vv := vals[bi : bi+len(v.terms)]
			tt := v.terms
			bi += len(v.terms)
			if len(tt) == 1 {
				if n, ok := vv[0].intVal(); ok {
					diffs = append(diffs, not(eq(tt[0], intLit(n))))
				} else {
					diffs = append(diffs, not(eq(tt[0], vv[0].atom)))
				}
				continue
			}
			n, _ := vv[0].intVal()
			diffs = append(diffs, not(eq(tt[0], intLit(n))))
			first := len(tt) - cexMaxLen
			for k := 0; k < int(n) && first+k < len(tt); k++ {
				if x, ok := vv[first+k].intVal(); ok {
					diffs = append(diffs, not(eq(tt[first+k], intLit(x))))
				}
			}
		}
		cex.Block = "(assert " + or(diffs...) + ")"
		i := 0
		good := true
		for _, v := range vars {
			lit, ok := v.build(vals[i : i+len(v.terms)])
			i += len(v.terms)
			if !ok {
				good = false
				break
			}
			cex.Inputs = append(cex.Inputs, cexInput{v.name, types.TypeString(v.typ, func(p *types.Package) string { return p.Name() }), lit})
		}
		if good {
			return cex
		}
	}
	return nil
}

type ReplayResult struct {
	Ran       bool   `json:"ran"`
	Confirmed bool   `json:"confirmed"`
	What      string `json:"what"`
	Test      string `json:"test,omitempty"`
	Output    string `json:"output,omitempty"`
}

// replay runs the function on the counterexample inputs inside the real package.
// oracleDir holds optional per-package oracle files (zz_verif_oracle_test.go).
func replay(repo, oracleRoot string, fn *ssa.Function, pkgDir string, cex *Cex, kind string, tmp string) ReplayResult {
	if fn.Signature.Recv() != nil || fn.Parent() != nil {
		return ReplayResult{What: "no generic replay harness for methods/closures"}
	}
	var b strings.Builder
	fmt.Fprintf(&b, "package %s\n\nimport (\n\t\"fmt\"\n\t\"testing\"\n)\n\n", fn.Pkg.Pkg.Name())
	fmt.Fprintf(&b, "func TestVerifReplay(t *testing.T) {\n")
	fmt.Fprintf(&b, "\tdefer func() {\n\t\tif r := recover(); r != nil {\n\t\t\tfmt.Printf(\"VERIF-REPLAY: panic: %%v\\n\", r)\n\t\t}\n\t}()\n")
	var args []string
	for _, in := range cex.Inputs {
		fmt.Fprintf(&b, "\tvar in_%s %s = %s\n", in.Name, in.Type, in.GoLit)
		args = append(args, "in_"+in.Name)
	}
	nres := fn.Signature.Results().Len()
	var res []string
	for i := 0; i < nres; i++ {
		res = append(res, fmt.Sprintf("r%d", i))
	}
	call := fn.Name() + "(" + strings.Join(args, ", ") + ")"
	oracle := filepath.Join(oracleRoot, pkgDir, "oracle_test.go")
	hasOracle := false
	if src, err := os.ReadFile(oracle); err == nil && bytes.Contains(src, []byte("func verifOracle_"+fn.Name()+"(")) {
		hasOracle = true
	}
	if nres > 0 {
		fmt.Fprintf(&b, "\t%s := %s\n", strings.Join(res, ", "), call)
		for _, r := range res {
			fmt.Fprintf(&b, "\t_ = %s\n", r)
		}
	} else {
		fmt.Fprintf(&b, "\t%s\n", call)
	}
	if hasOracle {
		// the oracle gets fresh copies of the inputs (the call may have changed them) and the results
		var oargs []string
		for _, in := range cex.Inputs {
			oargs = append(oargs, in.GoLit)
		}
		oargs = append(oargs, res...)
		fmt.Fprintf(&b, "\tif msg := verifOracle_%s(%s); msg != \"\" {\n\t\tfmt.Printf(\"VERIF-REPLAY: contract violated: %%s\\n\", msg)\n\t\treturn\n\t}\n", fn.Name(), strings.Join(oargs, ", "))
	}
	fmt.Fprintf(&b, "\tfmt.Println(\"VERIF-REPLAY: ok\")\n}\n")
	test := b.String()
	testFile := filepath.Join(tmp, "replay_test.go")
	os.WriteFile(testFile, []byte(test), 0o644)
	ov := map[string]map[string]string{"Replace": {filepath.Join(repo, pkgDir, "zz_verif_replay_test.go"): testFile}}
	if hasOracle {
		ov["Replace"][filepath.Join(repo, pkgDir, "zz_verif_oracle_test.go")] = oracle
	}
	ovb, _ := json.Marshal(ov)
	ovFile := filepath.Join(tmp, "overlay.json")
	os.WriteFile(ovFile, ovb, 0o644)
	ctx, cancel := context.WithTimeout(context.Background(), 120*time.Second)
	defer cancel()
	cmd := exec.CommandContext(ctx, "go", "test", "-overlay", ovFile, "-vet=off", "-v", "-count=1", "-timeout", "20s", "-run", "^TestVerifReplay$", "./"+pkgDir)
	cmd.Dir = repo
	cmd.Env = append(os.Environ(), "GOFLAGS=-mod=mod", "GOPROXY=off", "GOSUMDB=off", "GOTOOLCHAIN=local")
	out, _ := cmd.CombinedOutput()
	rr := ReplayResult{Ran: true, Test: test, Output: trunc(string(out), 3000)}
	for _, l := range strings.Split(string(out), "\n") {
		if strings.HasPrefix(l, "VERIF-REPLAY: ") {
			msg := strings.TrimPrefix(l, "VERIF-REPLAY: ")
			rr.What = msg
			switch {
			case strings.HasPrefix(msg, "panic:"):
				rr.Confirmed = true
			case strings.HasPrefix(msg, "contract violated:"):
				rr.Confirmed = true
			}
			return rr
		}
	}
	if strings.Contains(string(out), "panic: test timed out") {
		rr.Confirmed = true
		rr.What = "the call does not return within 20s on this input (non-termination)"
		return rr
	}
	rr.What = "replay produced no verdict line"
	if !hasOracle && kind != "safe" {
		rr.What = "no executable oracle for this postcondition"
	}
	return rr
}

func dropWarnings(s string) string {
	var keep []string
	for _, l := range strings.Split(s, "\n") {
		if strings.HasPrefix(l, "WARNING:") {
			continue
		}
		keep = append(keep, l)
	}
	return strings.Join(keep, "\n")
}

// ---- bounded quantifier expansion for counterexample search ----
// In counterexample mode inputs are bounded (offset 0, length <= cexMaxLen), so
// single-variable integer quantifiers are expanded over 0..cexMaxLen+1. This only
// guides the search for a candidate input: every candidate is replayed on the real code.

func (x *sx) String() string {
	if x.list == nil {
		return x.atom
	}
	parts := make([]string, len(x.list))
	for i, c := range x.list {
		parts[i] = c.String()
	}
	return "(" + strings.Join(parts, " ") + ")"
}

func substSx(x *sx, name, val string) *sx {
	if x.list == nil {
		if x.atom == name {
			return &sx{atom: val}
		}
		return x
	}
	// do not descend into binders that rebind the name
	if len(x.list) == 3 && x.list[0].list == nil && (x.list[0].atom == "forall" || x.list[0].atom == "exists") && x.list[1].list != nil {
		for _, b := range x.list[1].list {
			if len(b.list) == 2 && b.list[0].atom == name {
				return x
			}
		}
	}
	out := &sx{list: make([]*sx, len(x.list))}
	for i, c := range x.list {
		out.list[i] = substSx(c, name, val)
	}
	return out
}

func expandQuant(x *sx) *sx {
	if x.list == nil {
		return x
	}
	out := &sx{list: make([]*sx, len(x.list))}
	for i, c := range x.list {
		out.list[i] = expandQuant(c)
	}
	l := out.list
	if len(l) == 3 && l[0].list == nil && (l[0].atom == "forall" || l[0].atom == "exists") && l[1].list != nil && len(l[1].list) == 1 {
		b := l[1].list[0]
		if len(b.list) == 2 && b.list[1].list == nil && b.list[1].atom == "Int" {
			body := l[2]
			if body.list != nil && len(body.list) >= 2 && body.list[0].atom == "!" {
				body = body.list[1]
			}
			op := "and"
			if l[0].atom == "exists" {
				op = "or"
			}
			res := &sx{list: []*sx{{atom: op}}}
			for k := 0; k <= cexMaxLen+1; k++ {
				res.list = append(res.list, substSx(body, b.list[0].atom, fmt.Sprint(k)))
			}
			return res
		}
	}
	return out
}

func boundQuery(q string) string {
	var lines []string
	for _, l := range strings.Split(q, "\n") {
		if i := strings.Index(l, ";"); i >= 0 {
			l = l[:i]
		}
		lines = append(lines, l)
	}
	top := parseSx(strings.Join(lines, "\n"))
	var b strings.Builder
	for _, t := range top {
		b.WriteString(expandQuant(t).String())
		b.WriteByte('\n')
	}
	return b.String()
}

type BoundedResult struct {
	Name        string `json:"name"`
	Pkg         string `json:"package"`
	Bound       int    `json:"bound"`
	Cases       int    `json:"cases"`
	Nontrivial  int    `json:"nontrivial"`
	Failures    int    `json:"failures"`
	First       string `json:"first_failure,omitempty"`
	Ran         bool   `json:"ran"`
	Output      string `json:"output,omitempty"`
	Secs        float64 `json:"secs"`
}

var reBounded = regexp.MustCompile(`VERIF-BOUNDED: name=(\S+) bound=(\d+) cases=(\d+) nontrivial=(\d+) failures=(\d+) first=(.*)`)

// runBounded runs a bounded stand-in (a Go test kept in /verif/replay/<pkg>/bounded_test.go)
// on the real package through an overlay.
func runBounded(repo, replayRoot, spec, tier, tmp string) []BoundedResult {
	pkgDir, test, _ := strings.Cut(spec, ":")
	src := filepath.Join(replayRoot, pkgDir, "bounded_test.go")
	ov := map[string]map[string]string{"Replace": {filepath.Join(repo, pkgDir, "zz_verif_bounded_test.go"): src}}
	// every other *_test.go helper of the package's replay directory is overlaid too
	if helpers, _ := filepath.Glob(filepath.Join(replayRoot, pkgDir, "*_test.go")); helpers != nil {
		for _, h := range helpers {
			if filepath.Base(h) != "bounded_test.go" {
				ov["Replace"][filepath.Join(repo, pkgDir, "zz_verif_"+filepath.Base(h))] = h
			}
		}
	}
	ovb, _ := json.Marshal(ov)
	ovFile := filepath.Join(tmp, "overlay_bounded_"+san(spec)+".json")
	os.WriteFile(ovFile, ovb, 0o644)
	limit := 150 * time.Second
	if tier == "thorough" {
		limit = 25 * time.Minute
	}
	ctx, cancel := context.WithTimeout(context.Background(), limit+30*time.Second)
	defer cancel()
	t0 := time.Now()
	cmd := exec.CommandContext(ctx, "go", "test", "-overlay", ovFile, "-vet=off", "-v", "-count=1", "-timeout", fmt.Sprintf("%ds", int(limit.Seconds())), "-run", "^"+test+"$", "./"+pkgDir)
	cmd.WaitDelay = 5 * time.Second
	cmd.Dir = repo
	cmd.Env = append(os.Environ(), "GOFLAGS=-mod=mod", "GOPROXY=off", "GOSUMDB=off", "GOTOOLCHAIN=local", "VERIF_TIER="+tier)
	out, _ := cmd.CombinedOutput()
	var res []BoundedResult
	for _, l := range strings.Split(string(out), "\n") {
		if m := reBounded.FindStringSubmatch(l); m != nil {
			r := BoundedResult{Name: m[1], Pkg: pkgDir, Ran: true, Secs: round3(time.Since(t0).Seconds())}
			r.Bound, _ = strconv.Atoi(m[2])
			r.Cases, _ = strconv.Atoi(m[3])
			r.Nontrivial, _ = strconv.Atoi(m[4])
			r.Failures, _ = strconv.Atoi(m[5])
			if u, err := strconv.Unquote(strings.TrimSpace(m[6])); err == nil {
				r.First = u
			} else {
				r.First = m[6]
			}
			res = append(res, r)
		}
	}
	if len(res) == 0 {
		br := BoundedResult{Name: test, Pkg: pkgDir, Ran: false, Output: trunc(string(out), 2000), Secs: round3(time.Since(t0).Seconds())}
		if i := strings.Index(string(out), "VERIF-BOUNDED-PANIC: "); i >= 0 {
			// the real code panicked on an enumerated input
			br.Ran = true
			br.Failures = 1
			line, _, _ := strings.Cut(string(out)[i+len("VERIF-BOUNDED-PANIC: "):], "\n")
			br.First = line
		} else if strings.Contains(string(out), "panic: test timed out") || ctx.Err() != nil {
			// the real code did not finish the enumeration within the limit: reported, not silently dropped
			br.Ran = true
			br.Failures = 1
			br.First = fmt.Sprintf("the stand-in did not finish within %s (a call on the real code hangs or the bound is too large)", limit)
		} else if i := strings.Index(string(out), "panic: "); i >= 0 && !strings.Contains(string(out), "[build failed]") {
			// the real code panicked on an enumerated input and the stand-in had no recover around it
			br.Ran = true
			br.Failures = 1
			line, _, _ := strings.Cut(string(out)[i:], "\n")
			br.First = "the real code panicked during the enumeration: " + line
		} else if strings.Contains(string(out), "[build failed]") {
			// the stand-in no longer compiles against this tree (it names something the code no longer has)
			br.Ran = true
			br.Failures = 1
			br.First = "the stand-in does not build against the current code: " + trunc(strings.TrimSpace(string(out)), 300)
		}
		res = append(res, br)
	}
	return res
}

// replayProbe runs verifProbe_<fn> (a directed search over a small input dictionary kept in
// the package's oracle file) on the real code; used when no model-based input is available.
func replayProbe(repo, replayRoot string, fn *ssa.Function, pkgDir, tmp string) ReplayResult {
	oracle := filepath.Join(replayRoot, pkgDir, "oracle_test.go")
	name := strings.NewReplacer("(", "", ")", "", "*", "", ".", "_", "$", "_").Replace(fnShort(fn))
	src, err := os.ReadFile(oracle)
	if err != nil || !bytes.Contains(src, []byte("func verifProbe_"+name+"(")) {
		return ReplayResult{What: "no probe for " + name}
	}
	test := fmt.Sprintf("package %s\n\nimport (\n\t\"fmt\"\n\t\"testing\"\n)\n\nfunc TestVerifReplay(t *testing.T) {\n\tif msg := verifProbe_%s(); msg != \"\" {\n\t\tfmt.Printf(\"VERIF-REPLAY: contract violated: %%s\\n\", msg)\n\t\treturn\n\t}\n\tfmt.Println(\"VERIF-REPLAY: ok\")\n}\n", fn.Pkg.Pkg.Name(), name)
	testFile := filepath.Join(tmp, "probe_test.go")
	os.WriteFile(testFile, []byte(test), 0o644)
	ov := map[string]map[string]string{"Replace": {filepath.Join(repo, pkgDir, "zz_verif_replay_test.go"): testFile}}
	if helpers, _ := filepath.Glob(filepath.Join(replayRoot, pkgDir, "*_test.go")); helpers != nil {
		for _, h := range helpers {
			if filepath.Base(h) != "bounded_test.go" {
				ov["Replace"][filepath.Join(repo, pkgDir, "zz_verif_"+filepath.Base(h))] = h
			}
		}
	}
	ovb, _ := json.Marshal(ov)
	ovFile := filepath.Join(tmp, "overlay_probe.json")
	os.WriteFile(ovFile, ovb, 0o644)
	ctx, cancel := context.WithTimeout(context.Background(), 120*time.Second)
	defer cancel()
	cmd := exec.CommandContext(ctx, "go", "test", "-overlay", ovFile, "-vet=off", "-v", "-count=1", "-timeout", "60s", "-run", "^TestVerifReplay$", "./"+pkgDir)
	cmd.Dir = repo
	cmd.Env = append(os.Environ(), "GOFLAGS=-mod=mod", "GOPROXY=off", "GOSUMDB=off", "GOTOOLCHAIN=local")
	cmd.WaitDelay = 5 * time.Second
	out, _ := cmd.CombinedOutput()
	rr := ReplayResult{Ran: true, Test: test, Output: trunc(string(out), 3000)}
	for _, l := range strings.Split(string(out), "\n") {
		if strings.HasPrefix(l, "VERIF-REPLAY: ") {
			rr.What = "probe: " + strings.TrimPrefix(l, "VERIF-REPLAY: ")
			rr.Confirmed = strings.Contains(l, "contract violated:")
			return rr
		}
	}
	rr.What = "probe produced no verdict line"
	return rr
}
