package main

// Rely-guarantee reasoning for shared state (C09, C10).
//
// A package contract file may declare
//   shared T.f, ghostName, ...      state components other goroutines may change
//   rely  n: two-state predicate    what a step of the environment may do (old(..) = before)
//   guar  n: two-state predicate    what a step of this goroutine must satisfy
//   ginv  n: predicate              invariant of the shared state, true at every observable point
// Before every access to a shared component and around every call the generator
// lets the environment run: shared components are havocked, constrained by every
// rely clause and ginv. After every write of this goroutine to a shared component
// (a store, an atomic store, or a callee that modifies one) guar and ginv are obligations.

import (
	"fmt"
	"go/token"
	"strings"

	"golang.org/x/tools/go/ssa"
)

func (g *Gen) pkgDir() string {
	if g.fn == nil || g.fn.Pkg == nil {
		return ""
	}
	d, _ := g.world.pkgDirOf(g.fn.Pkg.Pkg)
	return d
}

func (g *Gen) shared() map[string]bool {
	if g.sharedSet != nil {
		return g.sharedSet
	}
	g.sharedSet = map[string]bool{}
	for _, k := range g.m.specs.Shared[g.pkgDir()] {
		if i := strings.Index(k, "."); i > 0 {
			c, _, _ := g.m.fieldComp(g.fn.Pkg.Pkg, k[:i], k[i+1:])
			if c == "" {
				g.warnings = append(g.warnings, "shared: unknown field "+k)
				continue
			}
			g.sharedSet[c] = true
			continue
		}
		if _, ok := g.m.comps[k]; ok {
			g.sharedSet[k] = true
		} else {
			g.warnings = append(g.warnings, "shared: unknown component "+k)
		}
	}
	return g.sharedSet
}

func (g *Gen) rgClauses(kind string) []*Axiom {
	var out []*Axiom
	for _, a := range g.m.specs.RG[g.pkgDir()] {
		if a.Kind == kind {
			out = append(out, a)
		}
	}
	return out
}

// interfere: the environment takes any number of steps.
func (g *Gen) interfere(st *State) {
	sh := g.shared()
	if len(sh) == 0 {
		return
	}
	prev := st.clone()
	for _, c := range sortedBoolKeys(sh) {
		g.havocComp(st, c)
	}
	env := g.env(st, g.params)
	env.old = prev
	for _, r := range g.rgClauses("rely") {
		g.assume(st, env.tr(r.Body).S)
	}
	for _, r := range g.rgClauses("ginv") {
		g.assume(st, env.tr(r.Body).S)
	}
}

// checkGuar: a step of this goroutine from prev to st.
func (g *Gen) checkGuar(prev, st *State, what string, pos token.Pos) {
	if len(g.shared()) == 0 {
		return
	}
	env := g.env(st, g.params)
	env.old = prev
	for _, r := range g.rgClauses("guar") {
		g.assertExpr(st, env, "guar", r.Name+"/"+what, r.Body, r.Src, pos)
	}
	for _, r := range g.rgClauses("ginv") {
		g.assertExpr(st, env, "ginv", r.Name+"/"+what, r.Body, r.Src, pos)
	}
}

func (g *Gen) touchesShared(st, prev *State) bool {
	for c := range g.shared() {
		if g.heapGet(st, c) != g.heapGet(prev, c) {
			return true
		}
	}
	return st.heap["@epoch"] != prev.heap["@epoch"]
}

// atomicCall models sync/atomic loads and stores as accesses to the addressed location.
func (g *Gen) atomicCall(x ssa.Value, cc *ssa.CallCommon, st *State) bool {
	f, ok := cc.Value.(*ssa.Function)
	if !ok || f.Pkg == nil || f.Pkg.Pkg.Path() != "sync/atomic" {
		return false
	}
	if f.Signature.Recv() != nil {
		return false // methods of atomic.Bool / Int32 / Value go through their extern contracts
	}
	name := f.Name()
	switch {
	case strings.HasPrefix(name, "Load"):
		g.interfere(st)
		p := g.val(cc.Args[0])
		g.setVal(x, g.load(st, p), x.Type())
		return true
	case strings.HasPrefix(name, "Add"):
		// atomic read-modify-write: one step; the result is the new value
		g.interfere(st)
		prev := st.clone()
		p := g.val(cc.Args[0])
		nv := g.wrap(add(g.load(st, p), g.val(cc.Args[1]).S), x.Type())
		n := g.define("atomicadd", "Int", nv)
		g.storeTo(st, p, n)
		g.setVal(x, n, x.Type())
		g.checkGuar(prev, st, fmt.Sprintf("atomic.%s#%d", name, g.bump("atomic."+name)), cc.Pos())
		return true
	case strings.HasPrefix(name, "Store"):
		g.interfere(st)
		prev := st.clone()
		g.storeTo(st, g.val(cc.Args[0]), g.val(cc.Args[1]).S)
		g.checkGuar(prev, st, fmt.Sprintf("atomic.%s#%d", name, g.bump("atomic."+name)), cc.Pos())
		return true
	}
	return false
}

func (g *Gen) bump(k string) int {
	g.callOrd[k]++
	return g.callOrd[k]
}
