package main

// Translation of contract expressions to SMT terms.

import (
	"fmt"
	"go/constant"
	"go/token"
	"go/types"
	"strconv"
	"strings"

	"golang.org/x/tools/go/ssa"
)

type Env struct {
	m     *Mod
	vars  map[string]Val
	st    *State
	old   *State
	tpkg  *types.Package
	spkg  *ssa.Package
	hget  func(st *State, comp string) string
	gconst func(gl *ssa.Global, st *State) (Val, bool)
	inDef bool // compiling a spec function body: no heap access
	alias map[string][]string // recorded local name -> its new name(s) (alias.go)
	entryParams map[string]Val // the function's parameters at entry (what their names mean inside old(...))
}

type specErr struct{ msg string }

func (e specErr) Error() string { return e.msg }

func sfail(f string, a ...any) { panic(specErr{fmt.Sprintf(f, a...)}) }

func (env *Env) with(vars map[string]Val) *Env {
	n := *env
	n.vars = map[string]Val{}
	for k, v := range env.vars {
		n.vars[k] = v
	}
	for k, v := range vars {
		n.vars[k] = v
	}
	return &n
}

func (env *Env) heap(comp string) string {
	if env.inDef {
		sfail("spec function body reads heap component %s", comp)
	}
	if env.hget != nil {
		return env.hget(env.st, comp)
	}
	return comp + "_0"
}

// specSort maps a type written in a contract to (sort, Go type or nil).
func (env *Env) specSort(typ string) (string, types.Type) {
	typ = strings.TrimSpace(typ)
	switch typ {
	case "", "int", "int64", "int32", "uint32", "uint64", "byte", "rune", "uint8", "uint":
		return "Int", types.Typ[types.Int]
	case "bool":
		return "Bool", types.Typ[types.Bool]
	case "string":
		return "Str", types.Typ[types.String]
	case "[]byte":
		return "Str", types.Typ[types.String]
	case "arr":
		return "(Array Int Int)", nil
	case "ref":
		return "Int", nil
	}
	if strings.HasPrefix(typ, "map[") {
		// map value view: Array K V (string keys via sid)
		d := 0
		for i := 4; i < len(typ); i++ {
			if typ[i] == '[' {
				d++
			}
			if typ[i] == ']' {
				if d == 0 {
					ks, _ := env.specSort(typ[4:i])
					vs, vg := env.specSort(typ[i+1:])
					if ks == "Str" {
						ks = "Int"
					}
					var mg types.Type
					if vg != nil {
						mg = types.NewMap(types.Typ[types.String], vg)
					}
					return "(Array " + ks + " " + vs + ")", mg
				}
				d--
			}
		}
	}
	if strings.HasPrefix(typ, "smt:") {
		return typ[4:], nil
	}
	if env.tpkg != nil {
		tv, err := types.Eval(token.NewFileSet(), env.tpkg, token.NoPos, typ)
		if err == nil && tv.IsType() {
			return env.m.sortOf(tv.Type), tv.Type
		}
	}
	sfail("unknown spec type %q", typ)
	return "", nil
}

func isStrLit(v Val) (string, bool) {
	if v.Bltn != "" && strings.HasPrefix(v.Bltn, "lit:") {
		return v.Bltn[4:], true
	}
	return "", false
}

// view converts a Go []byte / string value to a Str (sequence) view.
func (env *Env) view(v Val) Val {
	switch v.Sort {
	case "Str":
		return v
	case "Slice":
		es := "Int"
		if v.G != nil {
			if sl, ok := v.G.Underlying().(*types.Slice); ok {
				es = env.m.sortOf(sl.Elem())
			}
		}
		if es != "Int" {
			sfail("cannot view slice of %s as byte sequence", es)
		}
		h := env.heap(env.m.compSliceHeap("Int"))
		return Val{S: mkStr(sel(h, slRef(v.S)), slOff(v.S), slLen(v.S)), Sort: "Str", G: types.Typ[types.String]}
	}
	sfail("cannot view %s as sequence", v.Sort)
	return Val{}
}

func (env *Env) strEq(a, b Val) string {
	a, b = env.view(a), env.view(b)
	if l, ok := isStrLit(b); ok {
		return env.litEq(a, l)
	}
	if l, ok := isStrLit(a); ok {
		return env.litEq(b, l)
	}
	return eq(env.sidOf(a), env.sidOf(b))
}

func (env *Env) sidOf(a Val) string {
	if l, ok := isStrLit(a); ok && l == "" {
		return "(sid zarr 0 0)"
	}
	return "(sid " + sArr(a.S) + " " + sOff(a.S) + " " + sHi(a.S) + ")"
}

func (env *Env) litEq(a Val, l string) string {
	if l == "" {
		return eq(sLen(a.S), "0")
	}
	return "(streq_" + env.m.litArr(l) + " " + sArr(a.S) + " " + sOff(a.S) + " " + sHi(a.S) + ")"
}

func (env *Env) elemInfo(v Val) (string, types.Type) {
	if v.G != nil {
		switch u := v.G.Underlying().(type) {
		case *types.Slice:
			return env.m.sortOf(u.Elem()), u.Elem()
		case *types.Array:
			return env.m.sortOf(u.Elem()), u.Elem()
		case *types.Pointer:
			if a, ok := u.Elem().Underlying().(*types.Array); ok {
				return env.m.sortOf(a.Elem()), a.Elem()
			}
		}
	}
	return "Int", types.Typ[types.Int]
}

func (env *Env) tr(e *E) Val {
	m := env.m
	switch e.K {
	case "id":
		if v, ok := env.vars[e.S]; ok {
			if v.Loc != nil && v.Lazy {
				// a captured / address-taken variable: its value in the state the expression is evaluated in
				return Val{S: env.loadLoc(v.Loc), Sort: v.Sort, G: v.G}
			}
			return v
		}
		if env.alias != nil {
			// a recorded local that was renamed (alias.go); my_<name> follows its base name
			name, pre := e.S, ""
			if strings.HasPrefix(name, "my_") {
				name, pre = name[3:], "my_"
			}
			var inScope []string
			for _, a := range env.alias[name] {
				if _, ok := env.vars[pre+a]; ok {
					inScope = append(inScope, a)
				}
			}
			if len(inScope) == 1 {
				return env.tr(&E{K: "id", S: pre + inScope[0]})
			}
		}
		if v, ok := env.lookupPkgName(env.tpkg, e.S); ok {
			return v
		}
		for _, gv := range m.specs.Ghost {
			if gv.Name == e.S {
				m.comps[gv.Name] = gv.Type
				return Val{S: env.heap(gv.Name), Sort: gv.Type}
			}
		}
		if srt, ok := m.comps[e.S]; ok && !env.inDef {
			// a heap component by its internal name (used for frame clauses over whole maps)
			return Val{S: env.heap(e.S), Sort: srt}
		}
		sfail("unknown identifier %s", e.S)
	case "int":
		return Val{S: intLit(e.N), Sort: "Int", G: types.Typ[types.Int]}
	case "bool":
		return Val{S: e.S, Sort: "Bool", G: types.Typ[types.Bool]}
	case "str":
		v := m.strLit(e.S)
		v.Bltn = "lit:" + e.S
		return v
	case "nil":
		return Val{S: "0", Sort: "Nil"}
	case "old":
		n := *env
		if env.old != nil {
			n.st = env.old
		}
		if len(env.entryParams) > 0 {
			// parameters are mutable: inside old(...) a parameter's name denotes its value at entry
			nv := make(map[string]Val, len(env.vars)+len(env.entryParams))
			for k, v := range env.vars {
				nv[k] = v
			}
			for k, v := range env.entryParams {
				nv[k] = v
				nv["my_"+k] = v
			}
			n.vars = nv
		}
		return n.tr(e.A[0])
	case "un":
		x := env.tr(e.A[0])
		switch e.S {
		case "!":
			return Val{S: not(x.S), Sort: "Bool"}
		case "-":
			return Val{S: "(- " + x.S + ")", Sort: "Int"}
		}
		sfail("unsupported unary %s", e.S)
	case "cond":
		c := env.tr(e.A[0])
		a := env.tr(e.A[1])
		b := env.tr(e.A[2])
		if a.Sort == "Nil" {
			a = env.nilAs(b)
		}
		if b.Sort == "Nil" {
			b = env.nilAs(a)
		}
		r := a
		r.Bltn = ""
		r.S = ite(c.S, a.S, b.S)
		return r
	case "bin":
		return env.trBin(e)
	case "call":
		return env.trCall(e)
	case "idx":
		x := env.tr(e.A[0])
		i := env.tr(e.A[1])
		switch {
		case x.Sort == "Str":
			return Val{S: sel(sArr(x.S), add(sOff(x.S), i.S)), Sort: "Int"}
		case x.Sort == "Slice":
			es, et := env.elemInfo(x)
			h := env.heap(m.compSliceHeap(es))
			return Val{S: sel(sel(h, slRef(x.S)), add(slOff(x.S), i.S)), Sort: es, G: et}
		case strings.HasPrefix(x.Sort, "(Array "):
			k := i.S
			if i.Sort == "Str" {
				k = env.sidOf(i)
			}
			var eg types.Type
			if x.G != nil {
				switch u := x.G.Underlying().(type) {
				case *types.Map:
					eg = u.Elem()
				case *types.Array:
					eg = u.Elem()
				}
			}
			return Val{S: sel(x.S, k), Sort: arrayElemSort(x.Sort), G: eg}
		case x.Sort == "Int" && x.G != nil:
			if mp, ok := x.G.Underlying().(*types.Map); ok {
				ks, vs := m.sortOf(mp.Key()), m.sortOf(mp.Elem())
				k := i.S
				if ks == "Str" {
					ks = "Int"
					k = env.sidOf(env.view(i))
				}
				_, mv := m.compMap(ks, vs)
				return Val{S: sel(sel(env.heap(mv), x.S), k), Sort: vs, G: mp.Elem()}
			}
		}
		sfail("cannot index %s (sort %s)", e.A[0], x.Sort)
	case "slice":
		x := env.tr(e.A[0])
		lo := "0"
		if e.A[1] != nil {
			lo = env.tr(e.A[1]).S
		}
		switch x.Sort {
		case "Str":
			hi := sLen(x.S)
			if e.A[2] != nil {
				hi = env.tr(e.A[2]).S
			}
			return Val{S: mkStrLH(sArr(x.S), add(sOff(x.S), lo), add(sOff(x.S), hi)), Sort: "Str", G: x.G}
		case "Slice":
			hi := slLen(x.S)
			if e.A[2] != nil {
				hi = env.tr(e.A[2]).S
			}
			return Val{S: mkSl(slRef(x.S), add(slOff(x.S), lo), sub(hi, lo), sub(slCap(x.S), lo)), Sort: "Slice", G: x.G}
		}
		sfail("cannot slice sort %s", x.Sort)
	case "fld":
		// package-qualified name
		if e.A[0].K == "id" {
			if _, bound := env.vars[e.A[0].S]; !bound && env.tpkg != nil {
				for _, imp := range env.tpkg.Imports() {
					if imp.Name() == e.A[0].S {
						if v, ok := env.lookupPkgName(imp, e.S); ok {
							return v
						}
						sfail("unknown name %s.%s", imp.Name(), e.S)
					}
				}
			}
		}
		if e.A[0].K == "id" {
			// a captured struct variable: its fields live in the heap under the cell's address
			if v, ok := env.vars[e.A[0].S]; ok && v.Lazy && v.Loc != nil && v.Loc.Kind == "structptr" {
				return env.field(Val{S: v.Loc.Base, Sort: "Int", G: types.NewPointer(v.Loc.T)}, e.S)
			}
		}
		x := env.tr(e.A[0])
		return env.field(x, e.S)
	case "q":
		vars := map[string]Val{}
		var decl []string
		for _, q := range e.Vars {
			s, g := env.specSort(q.Type)
			n := "q_" + q.Name
			if s == "Str" {
				// a quantified sequence is three variables so that triggers contain no selectors
				vars[q.Name] = Val{S: mkStrLH(n+"_a", n+"_l", n+"_h"), Sort: s, G: g}
				decl = append(decl, "("+n+"_a (Array Int Int))", "("+n+"_l Int)", "("+n+"_h Int)")
				continue
			}
			vars[q.Name] = Val{S: n, Sort: s, G: g}
			decl = append(decl, "("+n+" "+s+")")
		}
		inner := env.with(vars)
		body := inner.tr(e.A[0])
		if body.Sort != "Bool" {
			sfail("quantifier body is not boolean: %s", e.A[0])
		}
		b := body.S
		if len(e.Trig) > 0 {
			var pats []string
			for _, tr := range e.Trig {
				var ts []string
				okPat := true
				for _, t := range tr {
					pt := inner.tr(t).S
					// a trigger must be built from function applications only
					for _, bad := range []string{"(ite ", "(and ", "(or ", "(not ", "(=> ", "(= ", "(< ", "(<= "} {
						if strings.Contains(pt, bad) {
							okPat = false
						}
					}
					ts = append(ts, pt)
				}
				if !okPat {
					continue // let the solver infer triggers for this quantifier
				}
				pats = append(pats, ":pattern ("+strings.Join(ts, " ")+")")
			}
			if len(pats) > 0 {
				b = "(! " + b + " " + strings.Join(pats, " ") + ")"
			}
		}
		return Val{S: "(" + e.S + " (" + strings.Join(decl, " ") + ") " + b + ")", Sort: "Bool"}
	}
	sfail("cannot translate %s", e)
	return Val{}
}

func arrayElemSort(s string) string {
	parts := splitSexp(s[1 : len(s)-1])
	if len(parts) == 3 {
		return parts[2]
	}
	return "Int"
}

func (env *Env) nilAs(like Val) Val {
	switch like.Sort {
	case "Slice":
		return Val{S: "nilslice", Sort: "Slice", G: like.G}
	case "Str":
		return Val{S: "emptystr", Sort: "Str", G: like.G}
	}
	return Val{S: "0", Sort: "Int", G: like.G}
}

func (env *Env) lookupPkgName(p *types.Package, name string) (Val, bool) {
	if p == nil {
		return Val{}, false
	}
	obj := p.Scope().Lookup(name)
	if obj == nil {
		return Val{}, false
	}
	switch o := obj.(type) {
	case *types.Const:
		return env.constVal(o.Val(), o.Type()), true
	case *types.Var:
		if env.spkg != nil {
			var sp *ssa.Package
			if env.spkg.Pkg == p {
				sp = env.spkg
			} else {
				sp = env.spkg.Prog.Package(p)
			}
			if sp != nil {
				if g, ok := sp.Members[name].(*ssa.Global); ok {
					if env.gconst != nil {
						if v, ok := env.gconst(g, env.st); ok {
							return v, true
						}
					}
					c := env.m.compGlobal(g)
					t := g.Type().(*types.Pointer).Elem()
					return Val{S: env.heap(c), Sort: env.m.sortOf(t), G: t}, true
				}
			}
		}
	}
	return Val{}, false
}

func (env *Env) constVal(c constant.Value, t types.Type) Val {
	switch c.Kind() {
	case constant.Int:
		n, _ := constant.Int64Val(c)
		if u, ok := constant.Uint64Val(c); ok && n < 0 && constant.Sign(c) > 0 {
			return Val{S: fmt.Sprint(u), Sort: "Int", G: t}
		}
		return Val{S: intLit(n), Sort: "Int", G: t}
	case constant.Bool:
		return Val{S: fmt.Sprint(constant.BoolVal(c)), Sort: "Bool", G: t}
	case constant.String:
		s := constant.StringVal(c)
		v := env.m.strLit(s)
		v.Bltn = "lit:" + s
		return v
	}
	sfail("unsupported constant kind")
	return Val{}
}

func (env *Env) field(x Val, name string) Val {
	m := env.m
	if x.G == nil {
		sfail("field %s of untyped value", name)
	}
	t := x.G
	isPtr := false
	if p, ok := t.Underlying().(*types.Pointer); ok {
		t = p.Elem()
		isPtr = true
	}
	st, ok := t.Underlying().(*types.Struct)
	if !ok {
		sfail("field %s of non-struct %s", name, t)
	}
	ssort := m.sortOf(t)
	for i := 0; i < st.NumFields(); i++ {
		if st.Field(i).Name() == name {
			ft := st.Field(i).Type()
			fs := m.sortOf(ft)
			if isPtr {
				c := m.compField(ssort, name, fs)
				return Val{S: sel(env.heap(c), x.S), Sort: fs, G: ft}
			}
			return Val{S: structGet(ssort, name, x.S), Sort: fs, G: ft}
		}
	}
	sfail("no field %s in %s", name, t)
	return Val{}
}

func structGet(ssort, field, v string) string {
	return "(" + ssort + "." + field + " " + v + ")"
}

func (env *Env) trBin(e *E) Val {
	op := e.S
	switch op {
	case "&&", "||", "==>", "<==>":
		a, b := env.tr(e.A[0]), env.tr(e.A[1])
		if a.Sort != "Bool" || b.Sort != "Bool" {
			sfail("operands of %s must be boolean in %s", op, e)
		}
		switch op {
		case "&&":
			return Val{S: and(a.S, b.S), Sort: "Bool"}
		case "||":
			return Val{S: or(a.S, b.S), Sort: "Bool"}
		case "==>":
			return Val{S: implies(a.S, b.S), Sort: "Bool"}
		default:
			return Val{S: "(= " + a.S + " " + b.S + ")", Sort: "Bool"}
		}
	case "==", "!=":
		a, b := env.tr(e.A[0]), env.tr(e.A[1])
		var r string
		switch {
		case a.Sort == "Nil" && b.Sort == "Nil":
			r = "true"
		case a.Sort == "Nil":
			r = env.isNil(b)
		case b.Sort == "Nil":
			r = env.isNil(a)
		case a.Sort == "Str" || b.Sort == "Str":
			r = env.strEq(a, b)
		case a.Sort == "Slice":
			sfail("slices compare only with nil; use sameSlice/sameBytes: %s", e)
		default:
			r = eq(a.S, b.S)
		}
		if op == "!=" {
			r = not(r)
		}
		return Val{S: r, Sort: "Bool"}
	case "<", "<=", ">", ">=":
		a, b := env.tr(e.A[0]), env.tr(e.A[1])
		return Val{S: "(" + op + " " + a.S + " " + b.S + ")", Sort: "Bool"}
	case "+", "-", "*":
		a, b := env.tr(e.A[0]), env.tr(e.A[1])
		if a.Sort != "Int" || b.Sort != "Int" {
			sfail("arithmetic on non-integers in %s", e)
		}
		if op == "+" {
			return Val{S: add(a.S, b.S), Sort: "Int"}
		}
		if op == "-" {
			return Val{S: sub(a.S, b.S), Sort: "Int"}
		}
		return Val{S: "(* " + a.S + " " + b.S + ")", Sort: "Int"}
	case "/":
		a, b := env.tr(e.A[0]), env.tr(e.A[1])
		return Val{S: "(godiv " + a.S + " " + b.S + ")", Sort: "Int"}
	case "%":
		a, b := env.tr(e.A[0]), env.tr(e.A[1])
		return Val{S: "(gomod " + a.S + " " + b.S + ")", Sort: "Int"}
	case "&", "|", "^", "&^", "<<", ">>":
		a, b := env.tr(e.A[0]), env.tr(e.A[1])
		return Val{S: bitop(op, a.S, b.S), Sort: "Int"}
	}
	sfail("unsupported operator %s", op)
	return Val{}
}

// Bit operations. Constant operands fold; a symbolic value combined with a constant
// mask uses the uninterpreted band/bandnot/bor (prelude axioms: range, single-bit masks)
// with term-level rewriting of nested masks; two symbolic operands fall back to bit-vectors.
func bitop(op, a, b string) string {
	x, errA := strconv.ParseUint(a, 10, 64)
	y, errB := strconv.ParseUint(b, 10, 64)
	if errA == nil && errB == nil {
		var r uint64
		switch op {
		case "&":
			r = x & y
		case "|":
			r = x | y
		case "^":
			r = x ^ y
		case "&^":
			r = x &^ y
		case "<<":
			r = x << y
		case ">>":
			r = x >> y
		}
		return fmt.Sprint(r)
	}
	if errA == nil && (op == "&" || op == "|") { // constant on the left: commute
		return bitop(op, b, a)
	}
	if errB == nil {
		switch op {
		case "&":
			return bandConst(a, y)
		case "&^":
			if y == 0 {
				return a
			}
			return fmt.Sprintf("(bandnot %s %d)", a, y)
		case "|":
			if y == 0 {
				return a
			}
			return fmt.Sprintf("(bor %s %d)", a, y)
		}
	}
	f := map[string]string{"&": "bvand", "|": "bvor", "^": "bvxor", "<<": "bvshl", ">>": "bvlshr"}[op]
	if op == "&^" {
		return "(bv2nat (bvand ((_ int2bv 64) " + a + ") (bvnot ((_ int2bv 64) " + b + "))))"
	}
	return "(bv2nat (" + f + " ((_ int2bv 64) " + a + ") ((_ int2bv 64) " + b + ")))"
}

// bandConst: t & k with nested-mask rewriting.
func bandConst(t string, k uint64) string {
	if k == 0 {
		return "0"
	}
	for _, fn := range []string{"bandnot", "bor", "band"} {
		if strings.HasPrefix(t, "("+fn+" ") {
			parts := splitSexp(t[1 : len(t)-1])
			if len(parts) == 3 {
				if m, err := strconv.ParseUint(parts[2], 10, 64); err == nil {
					switch fn {
					case "bandnot": // (x &^ m) & k
						if k&m == k {
							return "0"
						}
						return bandConst(parts[1], k&^m)
					case "bor": // (x | m) & k
						if k&m == k {
							return fmt.Sprint(k)
						}
						if k&m == 0 {
							return bandConst(parts[1], k)
						}
					case "band": // (x & m) & k
						return bandConst(parts[1], k&m)
					}
				}
			}
		}
	}
	return fmt.Sprintf("(band %s %d)", t, k)
}

func (env *Env) isNil(v Val) string {
	switch v.Sort {
	case "Slice":
		return eq(slRef(v.S), "0")
	case "Int":
		return eq(v.S, "0")
	}
	sfail("nil comparison on sort %s", v.Sort)
	return ""
}

func (env *Env) trCall(e *E) Val {
	m := env.m
	if e.S == "addrOf" && len(e.A) == 1 && e.A[0].K == "id" {
		// addrOf(v): the address of an address-taken local variable
		if v, ok := env.vars[e.A[0].S]; ok && v.Loc != nil && v.Loc.Base != "" {
			return Val{S: v.Loc.Base, Sort: "Int"}
		}
		sfail("addrOf(%s): not an address-taken variable in scope", e.A[0].S)
	}
	arg := func(i int) Val {
		if i >= len(e.A) {
			sfail("%s: missing argument %d", e.S, i)
		}
		return env.tr(e.A[i])
	}
	switch e.S {
	case "len":
		x := arg(0)
		switch x.Sort {
		case "Str":
			return Val{S: sLen(x.S), Sort: "Int"}
		case "Slice":
			return Val{S: slLen(x.S), Sort: "Int"}
		}
		sfail("len of sort %s", x.Sort)
	case "cap":
		return Val{S: slCap(arg(0).S), Sort: "Int"}
	case "lo":
		x := arg(0)
		if x.Sort == "Slice" {
			return Val{S: slOff(x.S), Sort: "Int"}
		}
		return Val{S: sOff(x.S), Sort: "Int"}
	case "hi":
		x := arg(0)
		if x.Sort == "Slice" {
			return Val{S: add(slOff(x.S), slLen(x.S)), Sort: "Int"}
		}
		return Val{S: sHi(x.S), Sort: "Int"}
	case "arrof":
		x := env.view(arg(0))
		return Val{S: sArr(x.S), Sort: "(Array Int Int)"}
	case "at":
		x := arg(0)
		if x.Sort == "(Array Int Int)" {
			return Val{S: sel(x.S, arg(1).S), Sort: "Int"}
		}
		if x.Sort == "Slice" {
			es, et := env.elemInfo(x)
			if es != "Int" {
				h := env.heap(m.compSliceHeap(es))
				return Val{S: sel(sel(h, slRef(x.S)), arg(1).S), Sort: es, G: et}
			}
		}
		x = env.view(x)
		return Val{S: sel(sArr(x.S), arg(1).S), Sort: "Int"}
	case "mkseq":
		return Val{S: mkStrLH(arg(0).S, arg(1).S, arg(2).S), Sort: "Str", G: types.Typ[types.String]}
	case "ref":
		x := arg(0)
		if x.Sort == "Slice" {
			return Val{S: slRef(x.S), Sort: "Int"}
		}
		return Val{S: x.S, Sort: "Int"}
	case "sameSlice":
		a, b := arg(0), arg(1)
		if a.Sort == "Nil" {
			a = env.nilAs(b)
		}
		if b.Sort == "Nil" {
			b = env.nilAs(a)
		}
		return Val{S: and(eq(slRef(a.S), slRef(b.S)), eq(slOff(a.S), slOff(b.S)), eq(slLen(a.S), slLen(b.S))), Sort: "Bool"}
	case "sameBytes":
		a, b := env.view(arg(0)), env.view(arg(1))
		q := fmt.Sprintf("(forall ((sbq Int)) (! (=> (and (<= 0 sbq) (< sbq %s)) (= (select %s (+ %s sbq)) (select %s (+ %s sbq)))) :pattern ((select %s (+ %s sbq))) :pattern ((select %s (+ %s sbq)))))",
			sLen(a.S), sArr(a.S), sOff(a.S), sArr(b.S), sOff(b.S), sArr(a.S), sOff(a.S), sArr(b.S), sOff(b.S))
		return Val{S: and(eq(sLen(a.S), sLen(b.S)), q), Sort: "Bool"}
	case "seq":
		return env.view(arg(0))
	case "matchAt": // matchAt(s, P, t): the bytes of t occur in s's array at absolute position P
		a, P, t := env.view(arg(0)), arg(1), env.view(arg(2))
		if n, err := strconv.Atoi(sLen(t.S)); err == nil && n <= 16 {
			var parts []string
			for i := 0; i < n; i++ {
				parts = append(parts, eq(sel(sArr(a.S), add(P.S, fmt.Sprint(i))), sel(sArr(t.S), add(sOff(t.S), fmt.Sprint(i)))))
			}
			return Val{S: and(parts...), Sort: "Bool"}
		}
		q := fmt.Sprintf("(forall ((mj Int)) (=> (and (<= 0 mj) (< mj %s)) (= (select %s (+ %s mj)) (select %s (+ %s mj)))))", sLen(t.S), sArr(a.S), P.S, sArr(t.S), sOff(t.S))
		return Val{S: q, Sort: "Bool"}
	case "min":
		return Val{S: "(imin " + arg(0).S + " " + arg(1).S + ")", Sort: "Int"}
	case "max":
		return Val{S: "(imax " + arg(0).S + " " + arg(1).S + ")", Sort: "Int"}
	case "eolA":
		return Val{S: "(eolA " + arg(0).S + " " + arg(1).S + " " + arg(2).S + ")", Sort: "Int"}
	case "eol": // eol(d, P): absolute position of the end of the line containing absolute P
		d := env.view(arg(0))
		return Val{S: "(eolA " + sArr(d.S) + " " + arg(1).S + " " + sHi(d.S) + ")", Sort: "Int"}
	case "TrimSpace":
		d := env.view(arg(0))
		return Val{S: "(trimA " + sArr(d.S) + " " + sOff(d.S) + " " + sHi(d.S) + ")", Sort: "Str", G: types.Typ[types.String]}
	case "runeAt": // runeAt(s, P): rune decoded at absolute position P of s
		d := env.view(arg(0))
		return Val{S: "(runeAt " + sArr(d.S) + " " + arg(1).S + " " + sHi(d.S) + ")", Sort: "Int"}
	case "runeW":
		d := env.view(arg(0))
		return Val{S: "(runeW " + sArr(d.S) + " " + arg(1).S + " " + sHi(d.S) + ")", Sort: "Int"}
	case "unbox": // unbox(i): the pointer stored in interface value i
		x := arg(0)
		env.m.extraSeen["(declare-fun unbox_Int (Int) Int)"] = env.m.extraSeen["(declare-fun unbox_Int (Int) Int)"] || func() bool {
			env.m.extraDecl = append(env.m.extraDecl, "(declare-fun unbox_Int (Int) Int)")
			return true
		}()
		return Val{S: "(unbox_Int " + x.S + ")", Sort: "Int"}
	case "fld": // fld(T, f): the heap map of field f of package struct type T (pointer -> value)
		if len(e.A) != 2 || e.A[0].K != "id" || e.A[1].K != "id" || env.tpkg == nil {
			sfail("fld(TypeName, field)")
		}
		c, fs, ft := env.m.fieldComp(env.tpkg, e.A[0].S, e.A[1].S)
		if c == "" {
			sfail("fld: no field %s.%s", e.A[0].S, e.A[1].S)
		}
		_ = ft
		return Val{S: env.heap(c), Sort: "(Array Int " + fs + ")"}
	case "deref": // deref(p): the value stored at the location p (an address-valued argument)
		x := arg(0)
		if x.Loc == nil {
			sfail("deref of a non-location")
		}
		return Val{S: env.loadLoc(x.Loc), Sort: m.sortOf(x.Loc.T), G: x.Loc.T}
	case "baseOf": // baseOf(p): the object containing the addressed field
		x := arg(0)
		if x.Loc == nil || x.Loc.Base == "" {
			sfail("baseOf of a non-field address")
		}
		return Val{S: x.Loc.Base, Sort: "Int"}
	case "isType": // isType(x, T): interface value x holds a *T of this package
		x := arg(0)
		if len(e.A) != 2 || e.A[1].K != "id" || env.tpkg == nil {
			sfail("isType(x, TypeName)")
		}
		obj := env.tpkg.Scope().Lookup(e.A[1].S)
		if obj == nil {
			sfail("isType: unknown type %s", e.A[1].S)
		}
		k := types.NewPointer(obj.Type()).String()
		id, ok := m.ifaceTags[k]
		if !ok {
			id = len(m.ifaceTags) + 1
			m.ifaceTags[k] = id
		}
		if !m.extraSeen["(declare-fun ifacetag (Int) Int)"] {
			m.extraSeen["(declare-fun ifacetag (Int) Int)"] = true
			m.extraDecl = append(m.extraDecl, "(declare-fun ifacetag (Int) Int)")
		}
		return Val{S: fmt.Sprintf("(= (ifacetag %s) %d)", x.S, id), Sort: "Bool"}
	case "cast": // cast(x, T): x viewed as a pointer to the package type T
		x := arg(0)
		if len(e.A) != 2 || e.A[1].K != "id" || env.tpkg == nil {
			sfail("cast(x, TypeName)")
		}
		obj := env.tpkg.Scope().Lookup(e.A[1].S)
		if obj == nil {
			sfail("cast: unknown type %s", e.A[1].S)
		}
		return Val{S: x.S, Sort: "Int", G: types.NewPointer(obj.Type())}
	case "unboxStr": // the string stored in interface value i
		x := arg(0)
		d := "(declare-fun unbox_Str (Int) Str)"
		if !env.m.extraSeen[d] {
			env.m.extraSeen[d] = true
			env.m.extraDecl = append(env.m.extraDecl, d)
		}
		return Val{S: "(unbox_Str " + x.S + ")", Sort: "Str", G: types.Typ[types.String]}
	case "sameStr": // structural identity of two string values (same array window)
		a, b := env.view(arg(0)), env.view(arg(1))
		return Val{S: eq(a.S, b.S), Sort: "Bool"}
	case "sid":
		return Val{S: env.sidOf(env.view(arg(0))), Sort: "Int"}
	case "deferIndex": // deferIndex("callee"): position of that deferred call in the current defer stack (registration order), -1 if absent
		if len(e.A) != 1 || e.A[0].K != "str" {
			sfail("deferIndex wants one string literal")
		}
		if env.st == nil {
			sfail("deferIndex outside a function body")
		}
		r := "(- 1)"
		for i, d := range env.st.defers {
			if calleeName(&d.call.Call) == e.A[0].S {
				r = ite(d.cond, fmt.Sprint(i), r)
			}
		}
		return Val{S: r, Sort: "Int"}
	case "isClosure": // isClosure(v, "Defer$1"): v is a closure of that function literal
		if len(e.A) != 2 || e.A[1].K != "str" {
			sfail("isClosure(v, \"name\")")
		}
		return Val{S: eq("(clofn "+arg(0).S+")", fmt.Sprint(fnID(e.A[1].S))), Sort: "Bool"}
	case "capturedInt": // capturedInt(v, k): the current value of the k-th captured variable (reference-like or integer) of closure v
		if len(e.A) != 2 || e.A[1].K != "int" {
			sfail("capturedInt(v, k)")
		}
		cell := fmt.Sprintf("(clovar %s %d)", arg(0).S, e.A[1].N)
		return Val{S: sel(env.heap("C_Int"), cell), Sort: "Int"}
	case "emptySet": // emptySet(): the set (Array Int Bool) with no members, for initialising ghost sets
		return Val{S: "((as const (Array Int Bool)) false)", Sort: "(Array Int Bool)"}
	case "objOf": // objOf(s): the identity of the array object behind slice s (0 for nil)
		x := arg(0)
		if x.Sort != "Slice" {
			sfail("objOf of a non-slice")
		}
		return Val{S: slRef(x.S), Sort: "Int"}
	case "rowOf": // rowOf(s): the current contents of the whole array object behind slice s (absolute positions)
		x := arg(0)
		if x.Sort != "Slice" {
			sfail("rowOf of a non-slice")
		}
		es, _ := env.elemInfo(x)
		return Val{S: sel(env.heap(m.compSliceHeap(es)), slRef(x.S)), Sort: "(Array Int " + es + ")"}
	case "capturedVar": // capturedVar(f, "x"): the current value of variable x captured by the closure value f (f must be a closure literal at this point)
		if len(e.A) != 2 || e.A[1].K != "str" {
			sfail("capturedVar(f, \"name\")")
		}
		fv := arg(0)
		if fv.Fn == nil {
			sfail("capturedVar: not a closure literal here")
		}
		want := map[string]bool{e.A[1].S: true}
		named := false
		for _, v := range fv.Fn.FreeVars {
			named = named || v.Name() == e.A[1].S
		}
		if !named {
			for _, a := range env.alias[e.A[1].S] { // the captured variable was renamed (alias.go)
				want[a] = true
			}
		}
		for i, v := range fv.Fn.FreeVars {
			if want[v.Name()] && i < len(fv.Clo) {
				c := fv.Clo[i]
				pt, ok := c.G.Underlying().(*types.Pointer)
				if !ok {
					sfail("capturedVar: %s is not captured by reference", e.A[1].S)
				}
				es := m.sortOf(pt.Elem())
				return Val{S: sel(env.heap(m.compCell(es)), c.S), Sort: es, G: pt.Elem()}
			}
		}
		sfail("capturedVar: the closure does not capture %s", e.A[1].S)
	case "deferCount":
		if env.st == nil {
			sfail("deferCount outside a function body")
		}
		r := "0"
		for _, d := range env.st.defers {
			r = add(r, ite(d.cond, "1", "0"))
		}
		return Val{S: r, Sort: "Int"}
	case "fresh": // fresh(x): reference allocated after function entry
		x := arg(0)
		r := x.S
		if x.Sort == "Slice" {
			r = slRef(x.S)
		}
		o := "alloc_0"
		if env.hget != nil && env.old != nil {
			o = env.hget(env.old, "alloc")
		}
		return Val{S: "(> " + r + " " + o + ")", Sort: "Bool"}
	case "oldObjectsUnchanged": // oldObjectsUnchanged(comp): objects that existed at entry are unchanged in comp
		if len(e.A) != 1 || e.A[0].K != "id" {
			sfail("oldObjectsUnchanged(component)")
		}
		c := e.A[0].S
		if c == "bytes" {
			c = m.compSliceHeap("Int")
		}
		if _, ok := m.comps[c]; !ok {
			sfail("unknown heap component %s", c)
		}
		cur := env.heap(c)
		n := *env
		n.st = env.old
		init := n.heap(c)
		a0 := n.heap("alloc")
		if cur == init {
			return Val{S: "true", Sort: "Bool"}
		}
		return Val{S: fmt.Sprintf("(forall ((fr Int)) (! (=> (<= fr %s) (= (select %s fr) (select %s fr))) :pattern ((select %s fr))))", a0, cur, init, cur), Sort: "Bool"}
	case "oldObjectsUnchangedExcept": // every byte array other than x's is unchanged since the pre-state
		x := arg(0)
		c := m.compSliceHeap("Int")
		cur := env.heap(c)
		n := *env
		n.st = env.old
		init := n.heap(c)
		return Val{S: fmt.Sprintf("(forall ((fr Int)) (! (=> (not (= fr %s)) (= (select %s fr) (select %s fr))) :pattern ((select %s fr))))", slRef(x.S), cur, init, cur), Sort: "Bool"}
	case "mapvals", "mapkeys": // the value / presence array of a Go map in the current state (string keys by content id)
		x := arg(0)
		mp, ok := x.G.Underlying().(*types.Map)
		if !ok {
			sfail("%s of non-map", e.S)
		}
		ks, vs := m.sortOf(mp.Key()), m.sortOf(mp.Elem())
		if ks == "Str" {
			ks = "Int"
		}
		md, mv := m.compMap(ks, vs)
		if e.S == "mapkeys" {
			return Val{S: sel(env.heap(md), x.S), Sort: "(Array " + ks + " Bool)"}
		}
		return Val{S: sel(env.heap(mv), x.S), Sort: "(Array " + ks + " " + vs + ")", G: x.G}
	case "maplen": // maplen(m): len(m) of a Go map (the same uninterpreted function of the key set the code's len uses)
		x := arg(0)
		if mp, ok := x.G.Underlying().(*types.Map); ok {
			ks, vs := m.sortOf(mp.Key()), m.sortOf(mp.Elem())
			if ks == "Str" {
				ks = "Int"
			}
			md, _ := m.compMap(ks, vs)
			fn := "maplen_" + san(ks)
			d1 := "(declare-fun " + fn + " ((Array " + ks + " Bool)) Int)"
			if !m.extraSeen[d1] {
				m.extraSeen[d1] = true
				m.extraDecl = append(m.extraDecl, d1)
			}
			return Val{S: ite(eq(x.S, "0"), "0", "("+fn+" "+sel(env.heap(md), x.S)+")"), Sort: "Int"}
		}
		sfail("maplen of non-map")
	case "mapdom": // mapdom(m, k): key present
		x, k := arg(0), arg(1)
		if mp, ok := x.G.Underlying().(*types.Map); ok {
			ks, vs := m.sortOf(mp.Key()), m.sortOf(mp.Elem())
			kk := k.S
			if ks == "Str" {
				ks = "Int"
				kk = env.sidOf(env.view(k))
			}
			md, _ := m.compMap(ks, vs)
			return Val{S: sel(sel(env.heap(md), x.S), kk), Sort: "Bool"}
		}
		sfail("mapdom of non-map")
	}
	if sf, ok := m.specs.Funcs[e.S]; ok {
		return env.callSpecFunc(sf, e)
	}
	sfail("unknown spec function %s", e.S)
	return Val{}
}

// callSpecFunc: defined functions take Str values; uninterpreted ones take
// sequences flattened to (arr, lo, hi) so that congruence works on content windows.
func (env *Env) callSpecFunc(sf *SpecFunc, e *E) Val {
	m := env.m
	if len(e.A) != len(sf.Params) {
		sfail("%s: expects %d arguments", sf.Name, len(sf.Params))
	}
	denv := &Env{m: m, tpkg: env.tpkg, spkg: env.spkg}
	if sf.PkgDir == "" || env.tpkg == nil {
		denv.tpkg = env.tpkg
	}
	m.ensureSpecFunc(sf, env)
	var args []string
	var inl []Val
	for i, p := range sf.Params {
		ps, _ := denv.specSort(p.Type)
		a := env.tr(e.A[i])
		if ps == "Str" {
			a = env.view(a)
			inl = append(inl, a)
			if sf.Body == nil || sf.Opaque {
				args = append(args, sArr(a.S), sOff(a.S), sHi(a.S))
				continue
			}
		}
		if strings.HasPrefix(ps, "(Array ") && a.Sort == "Int" && a.G != nil {
			// Go map -> value view
			if mp, ok := a.G.Underlying().(*types.Map); ok {
				ks, vs := m.sortOf(mp.Key()), m.sortOf(mp.Elem())
				if ks == "Str" {
					ks = "Int"
				}
				_, mv := m.compMap(ks, vs)
				a = Val{S: sel(env.heap(mv), a.S), Sort: ps}
			}
		}
		if a.Sort == "Nil" {
			a.S = "0"
		}
		if ps != "Str" {
			inl = append(inl, Val{S: a.S, Sort: ps, G: a.G})
		}
		args = append(args, a.S)
	}
	rs, rg := denv.specSort(sf.Ret)
	name := "sf_" + sf.Name
	// a defined function applied to a numeric constant is expanded in place so that
	// constant bit masks and arithmetic fold (e.g. wantMode(66))
	if sf.Body != nil && !sf.Opaque {
		numeral := false
		for _, a := range inl {
			if _, err := strconv.ParseInt(a.S, 10, 64); err == nil && a.Sort == "Int" {
				numeral = true
			}
		}
		if numeral {
			ienv := &Env{m: m, tpkg: env.tpkg, spkg: env.spkg, inDef: true, vars: map[string]Val{}}
			for i, p := range sf.Params {
				ienv.vars[p.Name] = inl[i]
			}
			r := ienv.tr(sf.Body)
			r.Bltn = ""
			return r
		}
	}
	if len(args) == 0 {
		return Val{S: name, Sort: rs, G: rg}
	}
	return Val{S: "(" + name + " " + strings.Join(args, " ") + ")", Sort: rs, G: rg}
}

var specFuncDone = map[*SpecFunc]bool{}

func (m *Mod) ensureSpecFunc(sf *SpecFunc, from *Env) {
	if specFuncDone[sf] {
		return
	}
	specFuncDone[sf] = true
	denv := &Env{m: m, tpkg: from.tpkg, spkg: from.spkg, inDef: true, vars: map[string]Val{}}
	var decl []string
	var flat []string
	for _, p := range sf.Params {
		s, g := denv.specSort(p.Type)
		n := "a_" + p.Name
		denv.vars[p.Name] = Val{S: n, Sort: s, G: g}
		decl = append(decl, "("+n+" "+s+")")
		if s == "Str" {
			flat = append(flat, "(Array Int Int)", "Int", "Int")
		} else {
			flat = append(flat, s)
		}
	}
	rs, _ := denv.specSort(sf.Ret)
	if sf.Body == nil {
		d := fmt.Sprintf("(declare-fun sf_%s (%s) %s)", sf.Name, strings.Join(flat, " "), rs)
		m.funcsDecl = append(m.funcsDecl, specDecl{d, d})
		return
	}
	body := denv.tr(sf.Body)
	if body.Sort == "Nil" {
		body.S = "0"
	}
	// the body may itself have triggered declarations of callees (appended before us)
	def := fmt.Sprintf("(define-fun sf_%s (%s) %s %s)", sf.Name, strings.Join(decl, " "), rs, body.S)
	if !sf.Opaque {
		m.funcsDecl = append(m.funcsDecl, specDecl{def, def})
		return
	}
	// opaque: uninterpreted in proofs, with a defining axiom triggered on the application
	oenv := &Env{m: m, tpkg: from.tpkg, spkg: from.spkg, inDef: true, vars: map[string]Val{}}
	var qv, app []string
	for _, p := range sf.Params {
		s, g := oenv.specSort(p.Type)
		n := "o_" + p.Name
		if s == "Str" {
			qv = append(qv, "("+n+"_a (Array Int Int))", "("+n+"_l Int)", "("+n+"_h Int)")
			app = append(app, n+"_a", n+"_l", n+"_h")
			oenv.vars[p.Name] = Val{S: mkStrLH(n+"_a", n+"_l", n+"_h"), Sort: "Str", G: g}
		} else {
			qv = append(qv, "("+n+" "+s+")")
			app = append(app, n)
			oenv.vars[p.Name] = Val{S: n, Sort: s, G: g}
		}
	}
	obody := oenv.tr(sf.Body)
	call := "(sf_" + sf.Name + " " + strings.Join(app, " ") + ")"
	proof := fmt.Sprintf("(declare-fun sf_%s (%s) %s)\n(assert (forall (%s) (! (= %s %s) :pattern (%s))))", sf.Name, strings.Join(flat, " "), rs, strings.Join(qv, " "), call, obody.S, call)
	// cex mode: transparent definition over the same flattened signature
	kw := "define-fun"
	if strings.Contains(obody.S, "(sf_"+sf.Name+" ") {
		kw = "define-fun-rec"
	}
	cex := fmt.Sprintf("(%s sf_%s (%s) %s %s)", kw, sf.Name, strings.Join(qv, " "), rs, obody.S)
	m.funcsDecl = append(m.funcsDecl, specDecl{proof, cex})
}

// loadLoc reads a location in env.st (spec-side twin of Gen.loadLoc).
func (env *Env) loadLoc(l *Loc) string {
	var base string
	switch l.Kind {
	case "local":
		if env.st != nil {
			base = env.st.locals[l.Alloc]
		}
		if base == "" {
			sfail("local variable not available in this state")
		}
	case "field", "cell":
		base = sel(env.heap(l.Comp), l.Base)
	case "elem":
		base = sel(sel(env.heap(l.Comp), l.Base), l.Idx)
	case "global":
		base = env.heap(l.Comp)
	default:
		sfail("cannot read location kind %s in a contract", l.Kind)
	}
	for _, p := range l.Path {
		if p.Field >= 0 {
			base = structGet(env.m.sortOf(p.T), fieldName(p.St, p.Field), base)
		} else {
			base = sel(base, p.Idx)
		}
	}
	return base
}

// fieldComp resolves Type.field of a package to its heap component.
func (m *Mod) fieldComp(pkg *types.Package, typ, field string) (comp, fsort string, ft types.Type) {
	obj := pkg.Scope().Lookup(typ)
	if obj == nil {
		return "", "", nil
	}
	st, ok := obj.Type().Underlying().(*types.Struct)
	if !ok {
		return "", "", nil
	}
	ss := m.sortOf(obj.Type())
	for i := 0; i < st.NumFields(); i++ {
		if st.Field(i).Name() == field {
			fs := m.sortOf(st.Field(i).Type())
			return m.compField(ss, field, fs), fs, st.Field(i).Type()
		}
	}
	return "", "", nil
}
