package main

// Lexer and parser for the contract expression language.
//
//   e ::= e <==> e | e ==> e | c ? e : e | e || e | e && e | e cmp e | e + e | ...
//       | !e | -e | ^e | f(e,...) | e[e] | e[e:e] | e.f | old(e)
//       | forall x, y T {trig, ...} :: e | exists ... :: e
//       | ident | int | 'c' | "str" | true | false | nil

import (
	"fmt"
	"strconv"
	"strings"
)

type QVar struct {
	Name string
	Type string // Go type text, default int
}

type E struct {
	K    string // id int str bool nil un bin cond call idx slice fld q old
	S    string // identifier, operator, field name, callee, "forall"/"exists"
	N    int64
	A    []*E
	Vars []QVar
	Trig [][]*E
}

func (e *E) String() string {
	switch e.K {
	case "id":
		return e.S
	case "int":
		return strconv.FormatInt(e.N, 10)
	case "str":
		return strconv.Quote(e.S)
	case "bool":
		return e.S
	case "nil":
		return "nil"
	case "un":
		return e.S + e.A[0].String()
	case "bin":
		return "(" + e.A[0].String() + " " + e.S + " " + e.A[1].String() + ")"
	case "cond":
		return "(" + e.A[0].String() + " ? " + e.A[1].String() + " : " + e.A[2].String() + ")"
	case "call":
		var a []string
		for _, x := range e.A {
			a = append(a, x.String())
		}
		return e.S + "(" + strings.Join(a, ", ") + ")"
	case "idx":
		return e.A[0].String() + "[" + e.A[1].String() + "]"
	case "slice":
		lo, hi := "", ""
		if e.A[1] != nil {
			lo = e.A[1].String()
		}
		if e.A[2] != nil {
			hi = e.A[2].String()
		}
		return e.A[0].String() + "[" + lo + ":" + hi + "]"
	case "fld":
		return e.A[0].String() + "." + e.S
	case "old":
		return "old(" + e.A[0].String() + ")"
	case "q":
		var v []string
		for _, q := range e.Vars {
			v = append(v, q.Name+" "+q.Type)
		}
		return "(" + e.S + " " + strings.Join(v, ", ") + " :: " + e.A[0].String() + ")"
	}
	return "?"
}

type tok struct {
	k string // id int str chr op eof
	s string
	n int64
}

type lexer struct {
	src  string
	pos  int
	toks []tok
}

var ops = []string{"<==>", "==>", "&&", "||", "==", "!=", "<=", ">=", "<<", ">>", "&^", "::", "<", ">", "+", "-", "*", "/", "%", "!", "?", ":", "(", ")", "[", "]", "{", "}", ",", ".", "&", "|", "^", "=", "@", "#", ";"}

func lex(src string) ([]tok, error) {
	var out []tok
	i := 0
	for i < len(src) {
		c := src[i]
		switch {
		case c == ' ' || c == '\t' || c == '\n' || c == '\r':
			i++
		case c == '/' && i+1 < len(src) && src[i+1] == '/':
			for i < len(src) && src[i] != '\n' {
				i++
			}
		case isIdentStart(c):
			j := i
			for j < len(src) && (isIdentStart(src[j]) || src[j] >= '0' && src[j] <= '9') {
				j++
			}
			out = append(out, tok{k: "id", s: src[i:j]})
			i = j
		case c >= '0' && c <= '9':
			j := i
			for j < len(src) && (src[j] >= '0' && src[j] <= '9' || src[j] == 'x' || src[j] == 'o' || src[j] == '_' || (src[j] >= 'a' && src[j] <= 'f') || (src[j] >= 'A' && src[j] <= 'F')) {
				j++
			}
			n, err := strconv.ParseInt(strings.ReplaceAll(src[i:j], "_", ""), 0, 64)
			if err != nil {
				return nil, fmt.Errorf("bad int %q", src[i:j])
			}
			out = append(out, tok{k: "int", n: n, s: src[i:j]})
			i = j
		case c == '\'':
			j := i + 1
			for j < len(src) && src[j] != '\'' {
				if src[j] == '\\' {
					j++
				}
				j++
			}
			if j >= len(src) {
				return nil, fmt.Errorf("unterminated char literal")
			}
			r, _, _, err := strconv.UnquoteChar(src[i+1:j], '\'')
			if err != nil {
				return nil, fmt.Errorf("bad char literal %s", src[i:j+1])
			}
			out = append(out, tok{k: "int", n: int64(r), s: src[i : j+1]})
			i = j + 1
		case c == '"':
			j := i + 1
			for j < len(src) && src[j] != '"' {
				if src[j] == '\\' {
					j++
				}
				j++
			}
			if j >= len(src) {
				return nil, fmt.Errorf("unterminated string literal")
			}
			s, err := strconv.Unquote(src[i : j+1])
			if err != nil {
				return nil, fmt.Errorf("bad string literal %s", src[i:j+1])
			}
			out = append(out, tok{k: "str", s: s})
			i = j + 1
		default:
			found := false
			for _, o := range ops {
				if strings.HasPrefix(src[i:], o) {
					out = append(out, tok{k: "op", s: o})
					i += len(o)
					found = true
					break
				}
			}
			if !found {
				return nil, fmt.Errorf("unexpected character %q at %d in %q", c, i, src)
			}
		}
	}
	out = append(out, tok{k: "eof"})
	return out, nil
}

func isIdentStart(c byte) bool {
	return c == '_' || c >= 'a' && c <= 'z' || c >= 'A' && c <= 'Z'
}

type parser struct {
	toks []tok
	p    int
	src  string
}

func (p *parser) peek() tok { return p.toks[p.p] }
func (p *parser) next() tok { t := p.toks[p.p]; p.p++; return t }
func (p *parser) isOp(s string) bool {
	t := p.peek()
	return t.k == "op" && t.s == s
}
func (p *parser) accept(s string) bool {
	if p.isOp(s) {
		p.p++
		return true
	}
	return false
}
func (p *parser) expect(s string) {
	if !p.accept(s) {
		panic(fmt.Errorf("expected %q at token %d (%v) in %q", s, p.p, p.peek(), p.src))
	}
}

func parseExpr(src string) (e *E, err error) {
	toks, err := lex(src)
	if err != nil {
		return nil, err
	}
	p := &parser{toks: toks, src: src}
	defer func() {
		if r := recover(); r != nil {
			if er, ok := r.(error); ok {
				err = er
				return
			}
			panic(r)
		}
	}()
	e = p.expr()
	if p.peek().k != "eof" {
		return nil, fmt.Errorf("trailing tokens at %d (%v) in %q", p.p, p.peek(), src)
	}
	return e, nil
}

func (p *parser) expr() *E { return p.iff() }

func (p *parser) iff() *E {
	x := p.implies()
	for p.accept("<==>") {
		y := p.implies()
		x = &E{K: "bin", S: "<==>", A: []*E{x, y}}
	}
	return x
}

func (p *parser) implies() *E {
	x := p.cond()
	if p.accept("==>") {
		y := p.implies()
		return &E{K: "bin", S: "==>", A: []*E{x, y}}
	}
	return x
}

func (p *parser) cond() *E {
	c := p.or()
	if p.accept("?") {
		a := p.cond()
		p.expect(":")
		b := p.cond()
		return &E{K: "cond", A: []*E{c, a, b}}
	}
	return c
}

func (p *parser) or() *E {
	x := p.and()
	for p.accept("||") {
		x = &E{K: "bin", S: "||", A: []*E{x, p.and()}}
	}
	return x
}

func (p *parser) and() *E {
	x := p.cmp()
	for p.accept("&&") {
		x = &E{K: "bin", S: "&&", A: []*E{x, p.cmp()}}
	}
	return x
}

func (p *parser) cmp() *E {
	x := p.add()
	for {
		t := p.peek()
		if t.k == "op" && (t.s == "==" || t.s == "!=" || t.s == "<" || t.s == "<=" || t.s == ">" || t.s == ">=") {
			p.p++
			x = &E{K: "bin", S: t.s, A: []*E{x, p.add()}}
			continue
		}
		return x
	}
}

func (p *parser) add() *E {
	x := p.mul()
	for {
		t := p.peek()
		if t.k == "op" && (t.s == "+" || t.s == "-" || t.s == "|" || t.s == "^") {
			p.p++
			x = &E{K: "bin", S: t.s, A: []*E{x, p.mul()}}
			continue
		}
		return x
	}
}

func (p *parser) mul() *E {
	x := p.unary()
	for {
		t := p.peek()
		if t.k == "op" && (t.s == "*" || t.s == "/" || t.s == "%" || t.s == "&" || t.s == "<<" || t.s == ">>" || t.s == "&^") {
			p.p++
			x = &E{K: "bin", S: t.s, A: []*E{x, p.unary()}}
			continue
		}
		return x
	}
}

func (p *parser) unary() *E {
	t := p.peek()
	if t.k == "op" && (t.s == "!" || t.s == "-" || t.s == "^") {
		p.p++
		return &E{K: "un", S: t.s, A: []*E{p.unary()}}
	}
	return p.postfix()
}

func (p *parser) postfix() *E {
	x := p.primary()
	for {
		switch {
		case p.accept("."):
			t := p.next()
			if t.k != "id" {
				panic(fmt.Errorf("expected field name in %q", p.src))
			}
			// qualified call pkg.F(...)
			if x.K == "id" && p.isOp("(") {
				p.p++
				args := p.args()
				x = &E{K: "call", S: x.S + "." + t.s, A: args}
				continue
			}
			x = &E{K: "fld", S: t.s, A: []*E{x}}
		case p.accept("["):
			var lo, hi *E
			if p.accept(":") {
				if !p.isOp("]") {
					hi = p.expr()
				}
				p.expect("]")
				x = &E{K: "slice", A: []*E{x, nil, hi}}
				continue
			}
			lo = p.expr()
			if p.accept(":") {
				if !p.isOp("]") {
					hi = p.expr()
				}
				p.expect("]")
				x = &E{K: "slice", A: []*E{x, lo, hi}}
				continue
			}
			p.expect("]")
			x = &E{K: "idx", A: []*E{x, lo}}
		default:
			return x
		}
	}
}

func (p *parser) args() []*E {
	var a []*E
	if p.accept(")") {
		return a
	}
	for {
		a = append(a, p.expr())
		if p.accept(")") {
			return a
		}
		p.expect(",")
	}
}

// typeText consumes tokens that form a Go type up to one of the stop operators
// at bracket depth 0 and returns its text.
func (p *parser) typeText(stops ...string) string {
	var sb strings.Builder
	depth := 0
	for {
		t := p.peek()
		if t.k == "eof" {
			break
		}
		if t.k == "op" && depth == 0 {
			stop := false
			for _, s := range stops {
				if t.s == s {
					stop = true
				}
			}
			if stop {
				break
			}
		}
		if t.k == "op" && (t.s == "[" || t.s == "(") {
			depth++
		}
		if t.k == "op" && (t.s == "]" || t.s == ")") {
			if depth == 0 {
				break
			}
			depth--
		}
		p.p++
		switch t.k {
		case "id":
			if sb.Len() > 0 {
				last := sb.String()[sb.Len()-1]
				if isIdentStart(last) || last >= '0' && last <= '9' {
					sb.WriteByte(' ')
				}
			}
			sb.WriteString(t.s)
		case "int":
			sb.WriteString(t.s)
		case "op":
			sb.WriteString(t.s)
		}
	}
	return sb.String()
}

func (p *parser) primary() *E {
	t := p.next()
	switch t.k {
	case "int":
		return &E{K: "int", N: t.n}
	case "str":
		return &E{K: "str", S: t.s}
	case "id":
		switch t.s {
		case "true", "false":
			return &E{K: "bool", S: t.s}
		case "nil":
			return &E{K: "nil"}
		case "old":
			if p.accept("(") {
				x := p.expr()
				p.expect(")")
				return &E{K: "old", A: []*E{x}}
			}
		case "forall", "exists":
			q := &E{K: "q", S: t.s}
			// vars: name[, name]* [type] [, ...]
			for {
				var names []string
				for {
					n := p.next()
					if n.k != "id" {
						panic(fmt.Errorf("expected quantified variable in %q", p.src))
					}
					names = append(names, n.s)
					if !p.accept(",") {
						break
					}
				}
				typ := "int"
				if !p.isOp("::") && !p.isOp("{") && !p.isOp(";") {
					typ = p.typeText("::", "{", ";")
				}
				for _, n := range names {
					q.Vars = append(q.Vars, QVar{n, typ})
				}
				if !p.accept(";") {
					break
				}
			}
			for p.accept("{") {
				var tr []*E
				for {
					tr = append(tr, p.expr())
					if p.accept("}") {
						break
					}
					p.expect(",")
				}
				q.Trig = append(q.Trig, tr)
			}
			p.expect("::")
			q.A = []*E{p.expr()}
			return q
		}
		if p.accept("(") {
			return &E{K: "call", S: t.s, A: p.args()}
		}
		return &E{K: "id", S: t.s}
	case "op":
		if t.s == "(" {
			x := p.expr()
			p.expect(")")
			return x
		}
	}
	panic(fmt.Errorf("unexpected token %v at %d in %q", t, p.p-1, p.src))
}
