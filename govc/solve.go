package main

import (
	"bytes"
	"context"
	"fmt"
	"os"
	"os/exec"
	"path/filepath"
	"sort"
	"strings"
	"sync"
	"time"
)

type solverSpec struct {
	name string
	argv func(file string, secs int, seed int) []string
}

var solvers = []solverSpec{
	{"z3-5.1.0", func(f string, s, seed int) []string {
		return []string{"z3-new", fmt.Sprintf("-T:%d", s), fmt.Sprintf("smt.random_seed=%d", seed), f}
	}},
	{"z3-4.8.12", func(f string, s, seed int) []string {
		return []string{"z3", fmt.Sprintf("-T:%d", s), fmt.Sprintf("smt.random_seed=%d", seed), f}
	}},
	{"cvc5-1.0", func(f string, s, seed int) []string {
		return []string{"cvc5", fmt.Sprintf("--tlimit=%d", s*1000), fmt.Sprintf("--seed=%d", seed), f}
	}},
}

func (g *Gen) header(cexArrays []string, body string) string {
	var b strings.Builder
	b.WriteString(preludeText(cexArrays != nil))
	b.WriteString(g.m.structDecls())
	// only the string literals the query (or a spec function) mentions
	var fd strings.Builder
	for _, d := range g.m.funcsDecl {
		fd.WriteString(d.proof)
	}
	all := body + fd.String()
	b.WriteString(g.m.litDecls(cexArrays != nil, func(n string) bool {
		i := strings.Index(all, n)
		for i >= 0 {
			j := i + len(n)
			if j >= len(all) || all[j] < '0' || all[j] > '9' {
				return true
			}
			k := strings.Index(all[j:], n)
			if k < 0 {
				break
			}
			i = j + k
		}
		return false
	}))
	for _, d := range g.m.extraDecl {
		b.WriteString(d + "\n")
	}
	var eps []string
	for n := range g.epochs {
		eps = append(eps, n)
	}
	sort.Strings(eps)
	for _, n := range eps {
		fmt.Fprintf(&b, "(declare-const %s %s)\n", n, g.epochs[n])
	}
	if cexArrays == nil {
		// heap well-formedness: a slice stored in an unmodified (initial or havocked-epoch) heap
		// refers to an object that already existed in that state
		for _, n := range eps {
			i := strings.LastIndex(n, "_")
			if i < 0 {
				continue
			}
			al := "alloc_" + n[i+1:]
			if _, ok := g.epochs[al]; !ok {
				continue
			}
			switch g.epochs[n] {
			case "(Array Int Slice)":
				fmt.Fprintf(&b, "(assert (forall ((wfp Int)) (! (<= (sl-ref (select %s wfp)) %s) :pattern ((select %s wfp)))))\n", n, al, n)
			case "(Array Int (Array Int Slice))":
				fmt.Fprintf(&b, "(assert (forall ((wfp Int) (wfi Int)) (! (<= (sl-ref (select (select %s wfp) wfi)) %s) :pattern ((select (select %s wfp) wfi)))))\n", n, al, n)
			default:
				// arrays of structs with slice-typed fields: H_<struct sort>
				srt := g.epochs[n]
				const pre = "(Array Int (Array Int "
				if strings.HasPrefix(srt, pre) && strings.HasSuffix(srt, "))") {
					ss := srt[len(pre) : len(srt)-2]
					if st, ok := g.m.structs[ss]; ok && !g.m.opaque[ss] {
						for fi := 0; fi < st.NumFields(); fi++ {
							if g.m.sortOf(st.Field(fi).Type()) == "Slice" {
								fmt.Fprintf(&b, "(assert (forall ((wfp Int) (wfi Int)) (! (<= (sl-ref (%s.%s (select (select %s wfp) wfi))) %s) :pattern ((select (select %s wfp) wfi)))))\n", ss, fieldName(st, fi), n, al, n)
							}
						}
					}
				}
			}
		}
	}
	for _, d := range g.m.funcsDecl {
		if cexArrays != nil {
			b.WriteString(d.cex + "\n")
		} else {
			b.WriteString(d.proof + "\n")
		}
	}
	if cexArrays == nil {
		b.WriteString(preludeAxioms(nil))
	}
	return b.String()
}

func (o *Obl) query(extra string) string { return o.queryWith(nil, extra, "") }

// queryWith: cexArrays != nil selects the counterexample form of the prelude axioms.
func (o *Obl) queryWith(cexArrays []string, extra, post string) string {
	var b strings.Builder
	var body strings.Builder
	for _, c := range o.gen.cmds[:o.ncmds] {
		body.WriteString(c + "\n")
	}
	body.WriteString(o.reach + "\n" + o.goal + "\n" + extra)
	b.WriteString(o.gen.header(cexArrays, body.String()))
	for _, c := range o.gen.cmds[:o.ncmds] {
		b.WriteString(c + "\n")
	}
	if cexArrays != nil {
		b.WriteString(preludeAxioms(cexArrays))
	}
	fmt.Fprintf(&b, "(assert %s)\n", o.reach)
	fmt.Fprintf(&b, "(assert (not %s))\n", o.goal)
	b.WriteString(extra)
	b.WriteString("(check-sat)\n")
	b.WriteString(post)
	return b.String()
}

type solveCfg struct {
	dir     string
	secs    int
	seed    int
	par     int
	agree   bool // thorough: require a second solver to agree on unsat
	maxSize int
}

type solveOut struct {
	verdict string
	solver  string
	secs    float64
	output  string
	also    []string
}

func runSolver(ctx context.Context, sp solverSpec, file string, secs, seed int) (string, string, float64) {
	argv := sp.argv(file, secs, seed)
	t0 := time.Now()
	cctx, cancel := context.WithTimeout(ctx, time.Duration(secs+2)*time.Second)
	defer cancel()
	cmd := exec.CommandContext(cctx, argv[0], argv[1:]...)
	var out bytes.Buffer
	cmd.Stdout = &out
	cmd.Stderr = &out
	_ = cmd.Run()
	el := time.Since(t0).Seconds()
	s := dropWarnings(out.String())
	first := strings.TrimSpace(s)
	if i := strings.IndexByte(first, '\n'); i >= 0 {
		first = first[:i]
	}
	switch first {
	case "unsat", "sat", "unknown":
		return first, s, el
	}
	if strings.Contains(first, "timeout") || cctx.Err() != nil {
		return "timeout", s, el
	}
	return "error", s, el
}

// race runs all solvers on the query; first definite answer (unsat/sat) wins.
func race(cfg *solveCfg, name, q string) solveOut {
	file := filepath.Join(cfg.dir, san(name)+".smt2")
	if err := os.WriteFile(file, []byte(q), 0o644); err != nil {
		return solveOut{verdict: "error", output: err.Error()}
	}
	ctx, cancel := context.WithCancel(context.Background())
	defer cancel()
	type res struct {
		sp      string
		verdict string
		out     string
		secs    float64
	}
	ch := make(chan res, len(solvers))
	for _, sp := range solvers {
		sp := sp
		go func() {
			v, o, s := runSolver(ctx, sp, file, cfg.secs, cfg.seed)
			ch <- res{sp.name, v, o, s}
		}()
	}
	var all []res
	var best *res
	for range solvers {
		r := <-ch
		all = append(all, r)
		if r.verdict == "unsat" || r.verdict == "sat" {
			if best == nil {
				rr := r
				best = &rr
				if !cfg.agree {
					break
				}
			} else if cfg.agree && r.verdict == best.verdict {
				return solveOut{verdict: best.verdict, solver: best.sp + "+" + r.sp, secs: best.secs, output: best.out}
			} else if cfg.agree && r.verdict != best.verdict {
				return solveOut{verdict: "unknown", solver: "disagreement:" + best.sp + "/" + r.sp, secs: r.secs, output: "solver disagreement"}
			}
		}
	}
	if best != nil {
		if cfg.agree {
			// only one solver answered
			return solveOut{verdict: best.verdict, solver: best.sp + " (single)", secs: best.secs, output: best.out}
		}
		return solveOut{verdict: best.verdict, solver: best.sp, secs: best.secs, output: best.out}
	}
	// no definite answer
	v := "unknown"
	to := 0
	nerr := 0
	for _, r := range all {
		if r.verdict == "error" {
			nerr++
		}
	}
	if nerr == len(all) {
		return solveOut{verdict: "error", solver: "all", output: "every solver rejected the query: " + trunc(all[0].out, 600)}
	}
	var outs []string
	var secs float64
	for _, r := range all {
		if r.verdict == "timeout" {
			to++
		}
		if r.secs > secs {
			secs = r.secs
		}
		outs = append(outs, r.sp+": "+r.verdict+" "+trunc(strings.TrimSpace(r.out), 300))
	}
	if to == len(all) {
		v = "timeout"
	}
	return solveOut{verdict: v, solver: "all", secs: secs, output: strings.Join(outs, "\n")}
}

func solveAll(cfg *solveCfg, obls []*Obl) {
	sem := make(chan struct{}, cfg.par)
	var wg sync.WaitGroup
	for _, o := range obls {
		if o.Verdict != "" {
			continue
		}
		o := o
		wg.Add(1)
		sem <- struct{}{}
		go func() {
			defer wg.Done()
			defer func() { <-sem }()
			q := o.query("")
			if len(q) > cfg.maxSize {
				o.Verdict, o.Output = "toolarge", fmt.Sprintf("query of %d bytes exceeds the cap of %d", len(q), cfg.maxSize)
				return
			}
			r := race(cfg, o.Name, q)
			o.Verdict, o.Solver, o.Secs, o.Output = r.verdict, r.solver, r.secs, r.output
		}()
	}
	wg.Wait()
}
