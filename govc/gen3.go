package main

import (
	"fmt"
	"go/token"
	"go/types"
	"strconv"
	"strings"

	"golang.org/x/tools/go/ssa"
)

func unquoteGo(s string) (string, error) { return strconv.Unquote(s) }

func (g *Gen) resultNames(sig *types.Signature, ct *Contract) []string {
	n := sig.Results().Len()
	out := make([]string, n)
	for i := 0; i < n; i++ {
		nm := sig.Results().At(i).Name()
		if ct != nil && i < len(ct.ResultN) && ct.ResultN[i] != "" {
			nm = ct.ResultN[i]
		}
		if nm == "" || nm == "_" {
			if n == 1 {
				nm = "result"
			} else {
				nm = fmt.Sprintf("result%d", i)
			}
		}
		out[i] = nm
	}
	return out
}

func (g *Gen) ret(x *ssa.Return, st *State) {
	var res []Val
	for _, r := range x.Results {
		res = append(res, g.val(r))
	}
	if g.inl != nil {
		// a return of a helper executed in place of its call: the caller continues from here
		g.inl.exits = append(g.inl.exits, exitPoint{st.clone(), res})
		return
	}
	g.exits = append(g.exits, exitPoint{st.clone(), res})
	if g.c == nil {
		return
	}
	if g.c.NoReturn && !g.c.Extern && !g.c.Trusted {
		g.assert(st, "noreturn", "", "false", "the contract says this function never returns normally", x.Pos())
	}
	// postconditions may mention locals that are in scope at the return (ghost-free
	// way of naming intermediate values); parameters and results take precedence
	vars := g.callScope(map[string]Val{})
	for k, v := range g.params {
		vars[k] = v
	}
	names := g.resultNames(g.fn.Signature, g.c)
	for i, r := range res {
		vars[names[i]] = r
	}
	if len(res) == 1 {
		vars["result"] = res[0]
	}
	env := g.env(st, vars)
	for _, h := range g.c.ExitHints {
		t := env.tr(h).S
		g.assert(st, "exit", "hint", t, h.String(), x.Pos())
		g.assume(st, t)
	}
	for j, e := range g.c.Ensures {
		g.assertExpr(st, env, "ensures", fmt.Sprint(j+1), e, g.c.EnsSrc[j], x.Pos())
	}
	g.frameObls(st, x.Pos())
}

// frameObls: the modifies clause is proved, not assumed.
func (g *Gen) frameObls(st *State, pos token.Pos) {
	if g.c == nil || !g.c.ModSet || g.c.ModAll {
		return
	}
	allowed := map[string]string{}
	for _, pat := range g.c.Modifies {
		mode := "any"
		if strings.HasPrefix(pat, "new ") {
			mode = "new"
		}
		for _, c := range g.expandMod(pat) {
			if allowed[c] != "any" { // an unrestricted entry wins over a new-only wildcard
				allowed[c] = mode
			}
		}
	}
	if st.heap["@epoch"] != g.entry.heap["@epoch"] {
		g.assert(st, "frame", "all", "false", "a callee with unknown effects was called; modifies clause cannot be shown", pos)
		return
	}
	for _, c := range sortedKeys(st.heap) {
		if c == "@epoch" || c == "alloc" || c == "It" {
			continue
		}
		if g.shared()[c] {
			continue // shared components change under interference; this goroutine's writes are governed by guar
		}
		cur, init := st.heap[c], g.heapGet(g.entry, c)
		if cur == init {
			continue
		}
		switch allowed[c] {
		case "any":
		case "new":
			g.assert(st, "frame", c, fmt.Sprintf("(forall ((fr Int)) (=> (<= fr %s) (= (select %s fr) (select %s fr))))", g.heapGet(g.entry, "alloc"), cur, init), "only newly allocated objects of "+c+" differ", pos)
		default:
			if strings.HasPrefix(g.compSort(c), "(Array Int ") && (strings.HasPrefix(c, "H_") || strings.HasPrefix(c, "F_") || strings.HasPrefix(c, "C_") || strings.HasPrefix(c, "M")) {
				// heap components: writes to objects allocated by this call are not effects
				g.assert(st, "frame", c, fmt.Sprintf("(forall ((fr Int)) (=> (<= fr %s) (= (select %s fr) (select %s fr))))", g.heapGet(g.entry, "alloc"), cur, init), "component "+c+" is not in the modifies clause (objects that existed at entry must be unchanged)", pos)
			} else {
				g.assert(st, "frame", c, eq(cur, init), "component "+c+" is not in the modifies clause", pos)
			}
		}
	}
}

func calleeName(cc *ssa.CallCommon) string {
	if cc.IsInvoke() {
		return "(" + cc.Value.Type().String() + ")." + cc.Method.Name()
	}
	switch f := cc.Value.(type) {
	case *ssa.Function:
		if o := f.Origin(); o != nil {
			f = o
		}
		if f.Pkg != nil && f.Signature.Recv() == nil {
			return f.Pkg.Pkg.Name() + "." + f.Name()
		}
		if recv := f.Signature.Recv(); recv != nil {
			// methods: (*pkg.T).m
			t := recv.Type()
			star := ""
			if p, ok := t.(*types.Pointer); ok {
				t = p.Elem()
				star = "*"
			}
			if nt, ok := t.(*types.Named); ok && nt.Obj().Pkg() != nil {
				return "(" + star + nt.Obj().Pkg().Name() + "." + nt.Obj().Name() + ")." + f.Name()
			}
		}
		return fnShort(f)
	case *ssa.MakeClosure:
		return f.Fn.Name()
	case *ssa.Builtin:
		return f.Name()
	}
	if u, ok := cc.Value.(*ssa.UnOp); ok && u.Op == token.MUL {
		if fv, ok := u.X.(*ssa.FreeVar); ok {
			return "dynamic:" + fv.Name()
		}
	}
	return "dynamic:" + cc.Value.Name()
}

func (g *Gen) call(x ssa.Value, cc *ssa.CallCommon, st *State) {
	if b, ok := cc.Value.(*ssa.Builtin); ok {
		if g.c != nil && (b.Name() == "close" || b.Name() == "panic" || b.Name() == "delete") {
			// call-site clauses on builtins with effects: at call close#k: requires ... (arguments arg0, arg1)
			cname := b.Name()
			g.callOrd[cname]++
			k := g.callOrd[cname]
			vars := map[string]Val{}
			for i, a := range cc.Args {
				vars[fmt.Sprintf("arg%d", i)] = g.val(a)
			}
			for _, cs := range g.c.Calls {
				if cs.Callee == cname && (cs.K == k || cs.K == 0) {
					cs.Matched = true
					env := g.env(st, g.callScope(vars))
					for j, r := range cs.Req {
						g.assertExpr(st, env, "callsite", fmt.Sprintf("%s#%d", cname, k), r, cs.ReqSrc[j], cc.Pos())
					}
				}
			}
		}
		g.builtin(x, b, cc, st)
		return
	}
	if g.atomicCall(x, cc, st) {
		return
	}
	if len(g.shared()) > 0 {
		// the environment may run before the call, and again once it has returned
		g.interfere(st)
		prev := st.clone()
		g.thenMid = nil
		g.callInner(x, cc, st)
		if g.thenMid != nil {
			prev = g.thenMid // a blocking call: the second phase is a step of its own
			g.thenMid = nil
		}
		if st.r != "false" {
			// callees of this module are verified against the guarantee step by step themselves
			ctc := g.calleeContract(cc)
			own := ctc != nil && !ctc.Extern && !ctc.Trusted
			if hf, ok := cc.Value.(*ssa.Function); ok && ctc == nil && g.inlinable(hf) {
				own = true // executed in place: each of its steps was checked where it happened
			}
			if !own && g.touchesShared(st, prev) {
				g.checkGuar(prev, st, fmt.Sprintf("call:%s#%d", calleeName(cc), g.callOrd[calleeName(cc)]), cc.Pos())
			}
			g.interfere(st)
		}
		return
	}
	g.callInner(x, cc, st)
}

// localResult: an interface value this function obtained from a call (directly, through a
// tuple extract or a phi of such): whether it is nil is this function's business to know.
func localResult(v ssa.Value, depth int) bool {
	if depth > 4 {
		return false
	}
	switch x := v.(type) {
	case *ssa.Call:
		return true
	case *ssa.Extract:
		_, ok := x.Tuple.(*ssa.Call)
		return ok
	case *ssa.Phi:
		for _, e := range x.Edges {
			if localResult(e, depth+1) {
				return true
			}
		}
	}
	return false
}

func (g *Gen) callInner(x ssa.Value, cc *ssa.CallCommon, st *State) {
	var args []Val
	if cc.IsInvoke() {
		args = append(args, g.val(cc.Value))
		if localResult(cc.Value, 0) && g.val(cc.Value).Sort == "Int" {
			// calling a method on a nil interface value panics; for interface values that came
			// out of a call in this function (info from os.Stat, an error) that is an obligation
			// (interface-typed parameters and fields are assumed non-nil: standing assumption)
			g.assert(st, "safe", "nilinvoke", not(eq(g.val(cc.Value).S, "0")), "method call on a nil interface value", cc.Pos())
		}
	}
	for _, a := range cc.Args {
		args = append(args, g.val(a))
	}
	ct := g.calleeContract(cc)
	cname := calleeName(cc)
	g.callOrd[cname]++
	k := g.callOrd[cname]
	if g.c != nil {
		for _, nc := range g.c.NoCall {
			if nc == cname {
				g.assert(st, "nocall", cname, "false", "the contract forbids calling "+cname+" here", cc.Pos())
			}
		}
	}
	sig := cc.Signature()
	var pos = cc.Pos()
	// parameter names
	var pnames []string
	var callee *ssa.Function
	switch f := cc.Value.(type) {
	case *ssa.Function:
		callee = f
	case *ssa.MakeClosure:
		callee = f.Fn.(*ssa.Function)
	}
	if ct != nil && ct.Extern && len(ct.ParamN) > 0 {
		pnames = ct.ParamN
	} else if callee != nil {
		for _, p := range callee.Params {
			pnames = append(pnames, p.Name())
		}
	} else if ct != nil {
		pnames = ct.ParamN
	}
	if callee == nil && ct != nil && len(pnames) == 0 {
		pnames = ct.ParamN
	}
	vars := map[string]Val{}
	for i, a := range args {
		if i < len(pnames) {
			vars[pnames[i]] = a
		}
		vars[fmt.Sprintf("arg%d", i)] = a
	}
	if mc, ok := cc.Value.(*ssa.MakeClosure); ok && callee != nil {
		cv := g.val(mc)
		for i, fv := range callee.FreeVars {
			if i < len(cv.Clo) {
				vars[fv.Name()] = g.lazyCell(cv.Clo[i])
			}
		}
	}
	// calls through a function-typed parameter use the caller's `callee <param>:` clause
	if g.c != nil && g.c.DynCallee != nil {
		if p, ok := cc.Value.(*ssa.Parameter); ok {
			if dc := g.c.DynCallee[p.Name()]; dc != nil {
				ct = dc
				cname = "param:" + p.Name()
			}
		}
		if u, ok := cc.Value.(*ssa.UnOp); ok {
			if dc := g.c.DynCallee[dynFieldName(u)]; dc != nil {
				ct = dc
				cname = "field:" + dynFieldName(u)
			}
		}
	}
	// ghost updates attached to this call site (part of the same atomic step as the call)
	doGhost := func(after bool) {
		if g.c == nil {
			return
		}
		for _, cs := range g.c.Calls {
			list := cs.Ghost
			if after {
				list = cs.GhostAfter
			}
			if cs.Callee == cname && (cs.K == k || cs.K == 0) && len(list) > 0 {
				cs.Matched = true
				// all right-hand sides are evaluated in the state before the group of assignments
				env0 := g.env(st.clone(), g.callScope(vars))
				for _, ga := range list {
					env := env0
					val := env.tr(ga.Val).S
					if _, ok := g.m.comps[ga.Comp]; !ok {
						g.unsup("ghost assignment to unknown component %s", ga.Comp)
					}
					cur := g.heapGet(st, ga.Comp)
					if ga.Idx != nil {
						idx := env.tr(ga.Idx)
						ix := idx.S
						if idx.Sort == "Str" {
							ix = env.sidOf(idx)
						}
						g.heapSet(st, ga.Comp, store(cur, ix, val))
					} else {
						g.heapSet(st, ga.Comp, val)
					}
				}
			}
		}
	}
	doGhost(false)
	pre := st.clone()
	// caller-side call-site requirements
	if g.c != nil {
		for _, cs := range g.c.Calls {
			if cs.Callee == cname && (cs.K == k || cs.K == 0) {
				cs.Matched = true
				env := g.env(st, g.callScope(vars))
				for j, r := range cs.Req {
					g.assertExpr(st, env, "callsite", fmt.Sprintf("%s#%d", cname, k), r, cs.ReqSrc[j], pos)
				}
			}
		}
	}
	if ct == nil && g.inlinable(callee) {
		if _, isClo := cc.Value.(*ssa.MakeClosure); !isClo {
			g.warnings = append(g.warnings, fmt.Sprintf("call of %s has no contract: its body is executed in place", cname))
			g.inlineCall(x, callee, args, st)
			return
		}
	}
	if ct == nil {
		g.warnings = append(g.warnings, fmt.Sprintf("call of %s has no contract: all state havocked, result unconstrained", cname))
		g.usedExt["(no contract) "+cname] = true
		g.havocAll(st)
		g.bindResults(x, sig, st, nil)
		return
	}
	if ct.Extern || ct.Trusted {
		g.usedExt[ct.Key] = true
	}
	env := g.env(st, vars)
	for j, r := range ct.Requires {
		g.assert(st, "call", fmt.Sprintf("%s#%d/requires%d", cname, k, j+1), env.tr(r).S, ct.ReqSrc[j], pos)
	}
	// frame
	switch {
	case ct.NoReturn: // control never comes back: the state after the call is irrelevant
	case ct.Pure:
	case !ct.ModSet || ct.ModAll:
		g.havocAll(st)
	default:
		oldAlloc := g.heapGet(st, "alloc")
		g.havocComp(st, "alloc") // any non-pure callee may allocate
		anyMod := map[string]bool{}
		for _, pat := range ct.Modifies {
			if !strings.HasPrefix(pat, "new ") {
				for _, c := range g.expandMod(pat) {
					anyMod[c] = true
				}
			}
		}
		done := map[string]bool{}
		for _, pat := range ct.Modifies {
			for _, c := range g.expandMod(pat) {
				if c == "alloc" || done[c] {
					continue
				}
				done[c] = true
				old := g.heapGet(st, c)
				g.havocComp(st, c)
				if strings.HasPrefix(pat, "new ") && c != "alloc" && !anyMod[c] {
					// only objects allocated by the callee differ
					nw := g.heapGet(st, c)
					g.assume(st, fmt.Sprintf("(forall ((fr Int)) (! (=> (<= fr %s) (= (select %s fr) (select %s fr))) :pattern ((select %s fr))))", oldAlloc, nw, old, nw))
				}
			}
		}
		g.assume(st, "(>= "+g.heapGet(st, "alloc")+" "+oldAlloc+")")
		for _, c := range sortedBoolKeys(done) {
			g.wfComp(st, c)
		}
	}
	if ct.NoReturn {
		st.r = "false"
		g.bindResults(x, sig, st, nil)
		return
	}
	names := g.resultNames(sig, ct)
	res := g.bindResults(x, sig, st, names)
	for i, r := range res {
		vars[names[i]] = r
	}
	if len(res) == 1 {
		vars["result"] = res[0]
	}
	pvars := vars
	if ct.Key != "" && strings.HasPrefix(ct.Key, "param:") {
		pvars = g.callScope(vars) // callee clauses of the caller may mention the caller's locals
	}
	post := g.env(st, pvars)
	post.old = pre
	for _, e := range ct.Ensures {
		// a clause about the callee's own ghost bindings cannot be stated at a caller: it is dropped (weaker assumption)
		func() {
			defer func() {
				if r := recover(); r != nil {
					if se, ok := r.(specErr); ok {
						if ct.Extern {
							g.warnings = append(g.warnings, fmt.Sprintf("a postcondition of %s could not be evaluated at this call and was dropped: %s", cname, se.msg))
						}
						return
					}
					panic(r)
				}
			}()
			g.assume(st, post.tr(e).S)
		}()
	}
	if ct.Then != nil {
		// blocking call: phase 1 is this goroutine's step (checked against the guarantee), then
		// the environment runs, then phase 2 (the wake-up) happens
		g.checkGuar(pre, st, fmt.Sprintf("call:%s#%d/phase1", cname, k), pos)
		g.interfere(st)
		mid := st.clone()
		for _, pat := range ct.Then.Modifies {
			for _, c := range g.expandMod(pat) {
				if c != "alloc" {
					g.havocComp(st, c)
				}
			}
		}
		p2 := g.env(st, pvars)
		p2.old = mid
		for _, e := range ct.Then.Ensures {
			g.assume(st, p2.tr(e).S)
		}
		g.thenMid = mid
	}
	for gname, rname := range ct.Bind {
		if gv, ok := g.params[gname]; ok {
			if rv, ok := vars[rname]; ok {
				for _, li := range g.loops {
					if li.blocks[g.curBlock] {
						g.unsup("bind on a call inside a loop")
					}
				}
				g.assume(st, eq(gv.S, rv.S))
			}
		}
	}
	doGhost(true)
	// caller-side hints after the call
	if g.c != nil {
		for _, cs := range g.c.Calls {
			if cs.Callee == cname && cs.K == k && cs.Bind != nil {
				cs.Matched = true
				for _, li := range g.loops {
					if li.blocks[g.curBlock] {
						g.unsup("bind on a call inside a loop")
					}
				}
				for gname, rname := range cs.Bind {
					if gv, ok := g.params[gname]; ok {
						if rv, ok := vars[rname]; ok {
							g.assume(st, eq(gv.S, rv.S))
						}
					}
				}
			}
			if cs.Callee == cname && (cs.K == k || cs.K == 0) {
				henv := g.env(st, g.callScope(vars))
				henv.old = pre
				for _, h := range cs.Hints {
					t := henv.tr(h).S
					g.assert(st, "callsite", fmt.Sprintf("%s#%d/hint", cname, k), t, h.String(), pos)
					g.assume(st, t)
				}
			}
		}
	}
}

// callScope: callee parameter names plus the caller's source names at this point.
func (g *Gen) callScope(vars map[string]Val) map[string]Val {
	out := map[string]Val{}
	if g.curBlock != nil && g.curSt != nil {
		// source names visible at the call: dominating blocks, then the current block so far
		for k, v := range g.scopeAt(g.curBlock, nil, g.curSt) {
			out[k] = v
		}
		g.scopeBlockUpTo(g.curBlock, g.curInstr, out, g.curSt)
	}
	for k, v := range g.params {
		if _, ok := out[k]; !ok {
			out[k] = v
		}
	}
	// named local arrays declared in a block that does not dominate this point are still
	// memory objects of the function: readable by name when the name is unique
	if g.curSt != nil {
		cnt := map[string]int{}
		var arrs []*ssa.Alloc
		for _, b := range g.fn.Blocks {
			for _, in := range b.Instrs {
				if a, ok := in.(*ssa.Alloc); ok && a.Comment != "" {
					cnt[a.Comment]++
					if _, isArr := a.Type().(*types.Pointer).Elem().Underlying().(*types.Array); isArr {
						arrs = append(arrs, a)
					}
				}
			}
		}
		for _, a := range arrs {
			if _, ok := out[a.Comment]; ok || cnt[a.Comment] != 1 {
				continue
			}
			v, ok := g.vals[a]
			if !ok {
				continue
			}
			at := a.Type().(*types.Pointer).Elem().Underlying().(*types.Array)
			es := g.m.sortOf(at.Elem())
			out[a.Comment] = Val{S: sel(g.heapGet(g.curSt, g.m.compSliceHeap(es)), v.S), Sort: "(Array Int " + es + ")", G: a.Type().(*types.Pointer).Elem()}
		}
	}
	// the caller's own names stay reachable as my_<name> when a callee parameter shadows them
	for k, v := range out {
		if !strings.HasPrefix(k, "my_") {
			if _, ok := out["my_"+k]; !ok {
				defer func(k string, v Val) { out["my_"+k] = v }(k, v)
			}
		}
	}
	for k, v := range vars {
		out[k] = v
	}
	return out
}

func (g *Gen) bindResults(x ssa.Value, sig *types.Signature, st *State, names []string) []Val {
	n := sig.Results().Len()
	var res []Val
	allocT := g.heapGet(st, "alloc")
	for i := 0; i < n; i++ {
		t := sig.Results().At(i).Type()
		sort := g.m.sortOf(t)
		pfx := "res"
		if x != nil {
			pfx = "res_" + x.Name()
		}
		c := g.declare(pfx, sort)
		res = append(res, Val{S: c, Sort: sort, G: t})
		g.assume(st, g.wf(c, t, allocT))
	}
	if x != nil {
		switch n {
		case 0:
		case 1:
			g.vals[x] = res[0]
		default:
			g.vals[x] = Val{Tup: res}
		}
	}
	return res
}

func (g *Gen) builtin(x ssa.Value, b *ssa.Builtin, cc *ssa.CallCommon, st *State) {
	m := g.m
	arg := func(i int) Val { return g.val(cc.Args[i]) }
	switch b.Name() {
	case "len":
		a := arg(0)
		switch u := cc.Args[0].Type().Underlying().(type) {
		case *types.Slice:
			g.setVal(x, slLen(a.S), x.Type())
		case *types.Basic:
			g.setVal(x, sLen(a.S), x.Type())
		case *types.Map:
			// the size of a map is a function of its key set (uninterpreted; non-negative,
			// zero for the nil map); contracts name it maplen(m)
			ks, vs := m.sortOf(u.Key()), m.sortOf(u.Elem())
			if ks == "Str" {
				ks = "Int"
			}
			md, _ := m.compMap(ks, vs)
			fn := "maplen_" + san(ks)
			d1 := "(declare-fun " + fn + " ((Array " + ks + " Bool)) Int)"
			if !m.extraSeen[d1] {
				m.extraSeen[d1] = true
				m.extraDecl = append(m.extraDecl, d1)
			}
			t := "(" + fn + " " + sel(g.heapGet(st, md), a.S) + ")"
			n := g.define("maplen", "Int", ite(eq(a.S, "0"), "0", t))
			g.assume(st, "(>= "+n+" 0)")
			g.setVal(x, n, x.Type())
			g.assume(st, "(>= "+g.vals[x].S+" 0)")
		case *types.Array:
			g.setVal(x, fmt.Sprint(u.Len()), x.Type())
		case *types.Pointer:
			g.setVal(x, fmt.Sprint(u.Elem().Underlying().(*types.Array).Len()), x.Type())
		default:
			g.setFresh(x, st)
			g.assume(st, "(>= "+g.vals[x].S+" 0)")
		}
	case "cap":
		g.setVal(x, slCap(arg(0).S), x.Type())
	case "min":
		g.setVal(x, "(imin "+arg(0).S+" "+arg(1).S+")", x.Type())
	case "max":
		g.setVal(x, "(imax "+arg(0).S+" "+arg(1).S+")", x.Type())
	case "append":
		g.appendB(x, cc, st)
	case "copy":
		g.copyB(x, cc, st)
	case "delete":
		mt := cc.Args[0].Type().Underlying().(*types.Map)
		ks, vs := m.sortOf(mt.Key()), m.sortOf(mt.Elem())
		k := arg(1).S
		if ks == "Str" {
			ks = "Int"
			k = g.env(st, nil).sidOf(arg(1))
		}
		md, mv := m.compMap(ks, vs)
		ref := arg(0).S
		hd, hv := g.heapGet(st, md), g.heapGet(st, mv)
		g.heapSet(st, md, store(hd, ref, store(sel(hd, ref), k, "false")))
		g.heapSet(st, mv, store(hv, ref, store(sel(hv, ref), k, m.zeroOf(mt.Elem()))))
	case "print", "println":
	case "recover":
		// only non-panicking executions are modelled (a diverging call cuts its path),
		// and there recover returns nil
		g.setVal(x, "0", x.Type())
	case "close":
	default:
		g.unsup("builtin %s", b.Name())
	}
}

// appendB models append(s, t...).
func (g *Gen) appendB(x ssa.Value, cc *ssa.CallCommon, st *State) {
	m := g.m
	s, t := g.val(cc.Args[0]), g.val(cc.Args[1])
	sl := cc.Args[0].Type().Underlying().(*types.Slice)
	es := m.sortOf(sl.Elem())
	comp := m.compSliceHeap(es)
	var tarr, toff, tlen string
	if t.Sort == "Str" { // append([]byte, string...)
		tarr, toff, tlen = sArr(t.S), sOff(t.S), sLen(t.S)
	} else {
		tarr, toff, tlen = sel(g.heapGet(st, comp), slRef(t.S)), slOff(t.S), slLen(t.S)
	}
	h := g.heapGet(st, comp)
	ref, off, ln, cp := slRef(s.S), slOff(s.S), slLen(s.S), slCap(s.S)
	newLen := g.define("alen", "Int", add(ln, tlen))
	inplace := g.define("ainpl", "Bool", "(<= "+newLen+" "+cp+")")
	oldArr := sel(h, ref)
	// number of appended elements known statically?
	nConst := -1
	if n, err := strconv.Atoi(tlen); err == nil && n <= 8 {
		nConst = n
	}
	newRef := g.newRef(st)
	resRef := g.define("aref", "Int", ite(inplace, ref, newRef))
	newCap := g.declare("acap", "Int")
	g.assume(st, and("(>= "+newCap+" "+newLen+")", implies(inplace, eq(newCap, cp))))
	var resArr string
	if nConst >= 0 {
		// in place: old array with stores; otherwise fresh array agreeing with the old window, then stores
		base := g.declare("abase", "(Array Int "+es+")")
		g.emit(fmt.Sprintf("(assert (forall ((q Int)) (! (=> (and (<= %s q) (< q %s)) (= (select %s q) (select %s q))) :pattern ((select %s q)) :pattern ((select %s q)))))",
			off, add(off, ln), base, oldArr, base, oldArr))
		arr := ite(inplace, oldArr, base)
		for i := 0; i < nConst; i++ {
			arr = store(arr, add(add(off, ln), fmt.Sprint(i)), sel(tarr, add(toff, fmt.Sprint(i))))
		}
		resArr = g.define("aarr", "(Array Int "+es+")", arr)
	} else {
		resArr = g.declare("aarr", "(Array Int "+es+")")
		// prefix kept (and, in place, everything outside the appended window kept)
		g.emit(fmt.Sprintf("(assert (forall ((q Int)) (! (=> (or (and (<= %s q) (< q %s)) (and %s (not (and (<= %s q) (< q %s))))) (= (select %s q) (select %s q))) :pattern ((select %s q)))))",
			off, add(off, ln), inplace, add(off, ln), add(off, newLen), resArr, oldArr, resArr))
		g.emit(fmt.Sprintf("(assert (forall ((q Int)) (! (=> (and (<= %s q) (< q %s)) (= (select %s q) (select %s (+ (- q %s) %s)))) :pattern ((select %s q)))))",
			add(off, ln), add(off, newLen), resArr, tarr, add(off, ln), toff, resArr))
		g.emit(fmt.Sprintf("(assert (forall ((q Int)) (! (=> (and (<= %s q) (< q %s)) (= (select %s q) (select %s (+ (- q %s) %s)))) :pattern ((select %s q)))))",
			toff, add(toff, tlen), tarr, resArr, toff, add(off, ln), tarr))
	}
	g.heapSet(st, comp, store(g.heapGet(st, comp), resRef, resArr))
	g.setVal(x, mkSl(resRef, off, newLen, newCap), x.Type())
}

func (g *Gen) copyB(x ssa.Value, cc *ssa.CallCommon, st *State) {
	m := g.m
	d, s := g.val(cc.Args[0]), g.val(cc.Args[1])
	sl := cc.Args[0].Type().Underlying().(*types.Slice)
	es := m.sortOf(sl.Elem())
	comp := m.compSliceHeap(es)
	h := g.heapGet(st, comp)
	var sarr, soff, slen string
	if s.Sort == "Str" {
		sarr, soff, slen = sArr(s.S), sOff(s.S), sLen(s.S)
	} else {
		sarr, soff, slen = sel(h, slRef(s.S)), slOff(s.S), slLen(s.S)
	}
	n := g.define("cpn", "Int", "(imin "+slLen(d.S)+" "+slen+")")
	doff := slOff(d.S)
	oldArr := sel(h, slRef(d.S))
	na := g.declare("cparr", "(Array Int "+es+")")
	g.emit(fmt.Sprintf("(assert (forall ((q Int)) (! (= (select %s q) (ite (and (<= %s q) (< q %s)) (select %s (+ (- q %s) %s)) (select %s q))) :pattern ((select %s q)))))",
		na, doff, add(doff, n), sarr, doff, soff, oldArr, na))
	g.emit(fmt.Sprintf("(assert (forall ((q Int)) (! (=> (and (<= %s q) (< q %s)) (= (select %s q) (select %s (+ (- q %s) %s)))) :pattern ((select %s q)))))",
		soff, add(soff, n), sarr, na, soff, doff, sarr))
	g.heapSet(st, comp, ite(eq(slRef(d.S), "0"), h, store(h, slRef(d.S), na)))
	if x != nil {
		g.setVal(x, n, x.Type())
	}
}

// constGlobal: value of a package-level variable stored only in init.
func (g *Gen) constGlobal(gl *ssa.Global, st *State) (Val, bool) {
	init := g.world.globalInit(gl)
	if init == nil {
		return Val{}, false
	}
	t := gl.Type().(*types.Pointer).Elem()
	switch v := init.(type) {
	case *ssa.Const:
		return g.constVal(v), true
	case *ssa.Call:
		// package-level error values: var errX = errors.New("...") -- a fixed non-nil value, distinct per variable
		if f, ok := v.Call.Value.(*ssa.Function); ok && f.Pkg != nil && (f.Pkg.Pkg.Path() == "errors" && f.Name() == "New" || f.Pkg.Pkg.Path() == "fmt" && f.Name() == "Errorf") {
			n := "gerr_" + san(gl.Pkg.Pkg.Name()+"_"+gl.Name())
			id := len(g.m.extraSeen) + 1
			g.ensureExtra(fmt.Sprintf("(declare-const %s Int)", n))
			if !g.m.extraSeen["id:"+n] {
				g.m.extraSeen["id:"+n] = true
				g.m.extraDecl = append(g.m.extraDecl, fmt.Sprintf("(assert (= %s (- %d)))", n, 2000000+id))
			}
			return Val{S: n, Sort: "Int", G: t}, true
		}
	case *ssa.Slice:
		// []byte{c0, c1, ...}: a slice of a fresh array filled with constant stores in init
		if al, ok := v.X.(*ssa.Alloc); ok && v.Low == nil && v.High == nil {
			if at, ok := al.Type().(*types.Pointer).Elem().Underlying().(*types.Array); ok {
				if b, ok := at.Elem().Underlying().(*types.Basic); ok && b.Kind() == types.Uint8 {
					vals := make([]int64, at.Len())
					okAll := true
					for _, ref := range *al.Referrers() {
						ia, ok := ref.(*ssa.IndexAddr)
						if !ok {
							continue
						}
						idx, ok := ia.Index.(*ssa.Const)
						if !ok {
							okAll = false
							continue
						}
						for _, r2 := range *ia.Referrers() {
							if st, ok := r2.(*ssa.Store); ok {
								if c, ok := st.Val.(*ssa.Const); ok && c.Value != nil {
									vals[idx.Int64()] = c.Int64()
								} else {
									okAll = false
								}
							}
						}
					}
					if okAll {
						sb := make([]byte, len(vals))
						for i, x := range vals {
							sb[i] = byte(x)
						}
						return g.literalSlice(gl, string(sb), t, st), true
					}
				}
			}
		}
	case *ssa.Convert:
		if c, ok := v.X.(*ssa.Const); ok && c.Value != nil {
			if _, ok := t.Underlying().(*types.Slice); ok {
				s := constString(c)
				// literal byte slice: a distinct old object whose contents are the literal
				ref := "gref_" + san(gl.Pkg.Pkg.Name()+"_"+gl.Name())
				if !g.noDecl[ref] {
					g.noDecl[ref] = true
					g.emit("(declare-const " + ref + " Int)")
					g.emit("(assert (and (> " + ref + " 0) (<= " + ref + " alloc_0)))")
				}
				h := g.heapGet(st, g.m.compSliceHeap("Int"))
				var facts []string
				for i := 0; i < len(s); i++ {
					facts = append(facts, eq(sel(sel(h, ref), fmt.Sprint(i)), fmt.Sprint(s[i])))
				}
				g.assume(st, and(facts...))
				return Val{S: mkSl(ref, "0", fmt.Sprint(len(s)), fmt.Sprint(len(s))), Sort: "Slice", G: t}, true
			}
		}
	}
	return Val{}, false
}

// literalSlice: a package-level byte-slice literal as a distinct old object with known contents.
func (g *Gen) literalSlice(gl *ssa.Global, s string, t types.Type, st *State) Val {
	ref := "gref_" + san(gl.Pkg.Pkg.Name()+"_"+gl.Name())
	if !g.noDecl[ref] {
		g.noDecl[ref] = true
		g.emit("(declare-const " + ref + " Int)")
		g.emit("(assert (and (> " + ref + " 0) (<= " + ref + " alloc_0)))")
	}
	h := g.heapGet(st, g.m.compSliceHeap("Int"))
	var facts []string
	for i := 0; i < len(s); i++ {
		facts = append(facts, eq(sel(sel(h, ref), fmt.Sprint(i)), fmt.Sprint(s[i])))
	}
	g.assume(st, and(facts...))
	return Val{S: mkSl(ref, "0", fmt.Sprint(len(s)), fmt.Sprint(len(s))), Sort: "Slice", G: t}
}

func (g *Gen) lookup(x *ssa.Lookup, st *State) {
	m := g.m
	xv, iv := g.val(x.X), g.val(x.Index)
	mt, ok := x.X.Type().Underlying().(*types.Map)
	if !ok {
		g.unsup("lookup on %s", x.X.Type())
	}
	ks, vs := m.sortOf(mt.Key()), m.sortOf(mt.Elem())
	k := iv.S
	if ks == "Str" {
		ks = "Int"
		if c, ok := x.Index.(*ssa.Const); ok && c.Value != nil {
			iv.Bltn = "lit:" + constString(c)
		}
		k = g.env(st, nil).sidOf(iv)
	}
	md, mv := m.compMap(ks, vs)
	dom := sel(sel(g.heapGet(st, md), xv.S), k)
	val := sel(sel(g.heapGet(st, mv), xv.S), k)
	g.assume(st, implies(not(dom), eq(val, m.zeroOf(mt.Elem()))))
	v := Val{S: g.define("v_"+x.Name(), vs, val), Sort: vs, G: mt.Elem()}
	if x.CommaOk {
		okv := Val{S: g.define("v_"+x.Name()+"ok", "Bool", dom), Sort: "Bool", G: types.Typ[types.Bool]}
		g.vals[x] = Val{Tup: []Val{v, okv}}
		return
	}
	g.vals[x] = v
}

func (g *Gen) mapUpdate(x *ssa.MapUpdate, st *State) {
	m := g.m
	mt := x.Map.Type().Underlying().(*types.Map)
	ks, vs := m.sortOf(mt.Key()), m.sortOf(mt.Elem())
	kv := g.val(x.Key)
	k := kv.S
	if ks == "Str" {
		ks = "Int"
		k = g.env(st, nil).sidOf(kv)
	}
	md, mv := m.compMap(ks, vs)
	ref := g.val(x.Map).S
	g.assert(st, "safe", "nilmap", not(eq(ref, "0")), "assignment to entry in nil map", x.Pos())
	hd, hv := g.heapGet(st, md), g.heapGet(st, mv)
	g.heapSet(st, md, store(hd, ref, store(sel(hd, ref), k, "true")))
	g.heapSet(st, mv, store(hv, ref, store(sel(hv, ref), k, g.val(x.Value).S)))
}

func (g *Gen) rangeInit(x *ssa.Range, st *State) {
	g.m.comps["It"] = "(Array Int Int)"
	ref := g.newRef(st)
	g.heapSet(st, "It", store(g.heapGet(st, "It"), ref, "0"))
	g.vals[x] = Val{S: ref, Sort: "Int", G: x.X.Type(), Tup: nil, Clo: []Val{g.val(x.X)}}
}

func (g *Gen) next(x *ssa.Next, st *State) {
	m := g.m
	it := g.val(x.Iter)
	src := it.Clo[0]
	m.comps["It"] = "(Array Int Int)"
	pos := g.define("itpos", "Int", sel(g.heapGet(st, "It"), it.S))
	if x.IsString {
		arr, lo, hi := sArr(src.S), add(sOff(src.S), pos), sHi(src.S)
		ok := g.define("itok", "Bool", "(< "+pos+" "+sLen(src.S)+")")
		r := g.define("itrune", "Int", "(runeAt "+arr+" "+lo+" "+hi+")")
		w := "(runeW " + arr + " " + lo + " " + hi + ")"
		g.heapSet(st, "It", store(g.heapGet(st, "It"), it.S, ite(ok, add(pos, w), pos)))
		g.vals[x] = Val{Tup: []Val{{S: ok, Sort: "Bool", G: types.Typ[types.Bool]}, {S: pos, Sort: "Int", G: types.Typ[types.Int]}, {S: r, Sort: "Int", G: types.Typ[types.Rune]}}}
		return
	}
	mt, okm := src.G.Underlying().(*types.Map)
	if !okm {
		g.unsup("range over %s", src.G)
	}
	ks, vs := m.sortOf(mt.Key()), m.sortOf(mt.Elem())
	ok := g.declare("itok", "Bool")
	kk := g.declare("itkey", ks)
	kid := kk
	if ks == "Str" {
		ks = "Int"
		kid = g.env(st, nil).sidOf(Val{S: kk, Sort: "Str"})
	}
	md, mv := m.compMap(ks, vs)
	g.assume(st, implies(ok, sel(sel(g.heapGet(st, md), src.S), kid)))
	v := g.define("itval", vs, sel(sel(g.heapGet(st, mv), src.S), kid))
	g.heapSet(st, "It", store(g.heapGet(st, "It"), it.S, add(pos, "1")))
	g.vals[x] = Val{Tup: []Val{{S: ok, Sort: "Bool", G: types.Typ[types.Bool]}, {S: kk, Sort: m.sortOf(mt.Key()), G: mt.Key()}, {S: v, Sort: vs, G: mt.Elem()}}}
}

func (g *Gen) ensureExtra(decl string) {
	if g.m.extraSeen[decl] {
		return
	}
	g.m.extraSeen[decl] = true
	g.m.extraDecl = append(g.m.extraDecl, decl)
}

func (g *Gen) typeTag(t types.Type) int {
	k := t.String()
	if id, ok := g.m.ifaceTags[k]; ok {
		return id
	}
	id := len(g.m.ifaceTags) + 1
	g.m.ifaceTags[k] = id
	return id
}

func (g *Gen) unboxFn(sort string) string {
	n := "unbox_" + san(sort)
	g.ensureExtra("(declare-fun " + n + " (Int) " + sort + ")")
	return n
}

func (g *Gen) makeInterface(x *ssa.MakeInterface, st *State) {
	g.ensureExtra("(declare-fun ifacetag (Int) Int)")
	if c, ok := x.X.(*ssa.Const); ok && c.Value != nil {
		if b, ok := c.Type().Underlying().(*types.Basic); ok && b.Info()&types.IsInteger != 0 {
			// boxing a constant: one value per (type, constant), so that err == syscall.EINTR is meaningful
			n := "ifc_" + san(c.Type().String()) + "_" + san(c.Value.ExactString())
			g.ensureExtra(fmt.Sprintf("(declare-const %s Int)\n(assert (< %s (- 1000000)))\n(assert (= (ifacetag %s) %d))", n, n, n, g.typeTag(x.X.Type())))
			g.vals[x] = Val{S: n, Sort: "Int", G: x.Type()}
			return
		}
	}
	v := g.val(x.X)
	sort := g.m.sortOf(x.X.Type())
	k := g.declare("if_"+x.Name(), "Int")
	ref := g.newRef(st)
	facts := []string{eq(k, ref), eq("(ifacetag "+k+")", fmt.Sprint(g.typeTag(x.X.Type())))}
	if v.S != "" && v.Loc == nil {
		facts = append(facts, eq("("+g.unboxFn(sort)+" "+k+")", v.S))
	}
	g.assume(st, and(facts...))
	g.vals[x] = Val{S: k, Sort: "Int", G: x.Type()}
}

func (g *Gen) typeAssert(x *ssa.TypeAssert, st *State) {
	g.ensureExtra("(declare-fun ifacetag (Int) Int)")
	v := g.val(x.X)
	var ok, val string
	sort := g.m.sortOf(x.AssertedType)
	if _, isIface := x.AssertedType.Underlying().(*types.Interface); isIface {
		ok = g.declare("taok", "Bool")
		g.assume(st, implies(ok, not(eq(v.S, "0"))))
		val = v.S
	} else {
		ok = g.define("taok", "Bool", and(not(eq(v.S, "0")), eq("(ifacetag "+v.S+")", fmt.Sprint(g.typeTag(x.AssertedType)))))
		val = ite(ok, "("+g.unboxFn(sort)+" "+v.S+")", g.m.zeroOf(x.AssertedType))
	}
	rv := Val{S: g.define("v_"+x.Name(), sort, val), Sort: sort, G: x.AssertedType}
	if x.CommaOk {
		g.vals[x] = Val{Tup: []Val{rv, {S: ok, Sort: "Bool", G: types.Typ[types.Bool]}}}
		return
	}
	if g.c != nil && g.c.NoAssertCheck {
		g.nosafe++
		g.assume(st, ok)
	} else {
		g.assert(st, "safe", "typeassert", ok, "type assertion holds", x.Pos())
	}
	g.vals[x] = rv
}

func (g *Gen) panicInstr(x *ssa.Panic, st *State) {
	if g.c != nil && (g.c.NoReturn || g.c.AllowPanic) {
		st.r = "false"
		return
	}
	g.assert(st, "safe", "panic", "false", "explicit panic is unreachable", x.Pos())
	st.r = "false"
}

func (g *Gen) goInstr(x *ssa.Go, st *State) {
	ct := g.calleeContract(&x.Call)
	if ct == nil {
		g.warnings = append(g.warnings, "go statement with uncontracted callee "+calleeName(&x.Call))
		return
	}
	var args []Val
	for _, a := range x.Call.Args {
		args = append(args, g.val(a))
	}
	vars := map[string]Val{}
	if f, ok := x.Call.Value.(*ssa.Function); ok {
		for i, p := range f.Params {
			if i < len(args) {
				vars[p.Name()] = args[i]
			}
		}
	}
	if mc, ok := x.Call.Value.(*ssa.MakeClosure); ok {
		callee := mc.Fn.(*ssa.Function)
		cv := g.val(mc)
		for i, fv := range callee.FreeVars {
			if i < len(cv.Clo) {
				vars[fv.Name()] = g.lazyCell(cv.Clo[i])
			}
		}
	}
	// ghost updates attached to the go statement: at call go:<callee>#k: ghost ...
	gname := "go:" + calleeName(&x.Call)
	g.callOrd[gname]++
	if g.c != nil {
		for _, cs := range g.c.Calls {
			if cs.Callee == gname && (cs.K == g.callOrd[gname] || cs.K == 0) {
				cs.Matched = true
				if len(g.shared()) > 0 {
					g.interfere(st)
				}
				prev := st.clone()
				env0 := g.env(st.clone(), g.callScope(vars))
				for _, ga := range cs.Ghost {
					val := env0.tr(ga.Val).S
					cur := g.heapGet(st, ga.Comp)
					if ga.Idx != nil {
						g.heapSet(st, ga.Comp, store(cur, env0.tr(ga.Idx).S, val))
					} else {
						g.heapSet(st, ga.Comp, val)
					}
				}
				if g.touchesShared(st, prev) {
					g.checkGuar(prev, st, gname, x.Pos())
				}
			}
		}
	}
	// the new goroutine has its own thread-local ghosts, initialised as the callee's contract says
	nst := st.clone()
	for _, ga := range ct.OnSpawn {
		if _, ok := g.m.comps[ga.Comp]; ok {
			nst.heap[ga.Comp] = g.env(st, vars).tr(ga.Val).S
		}
	}
	env := g.env(nst, vars)
	for j, r := range ct.Requires {
		g.assert(nst, "go", fmt.Sprintf("%s/requires%d", calleeName(&x.Call), j+1), env.tr(r).S, ct.ReqSrc[j], x.Pos())
	}
}

func (g *Gen) runDefers(st *State) {
	for i := len(st.defers) - 1; i >= 0; i-- {
		d := st.defers[i]
		cond := d.cond
		if d.call.Block().Dominates(g.curBlock) {
			cond = "true"
		}
		if cond == "true" {
			g.call(nil, &d.call.Call, st)
			continue
		}
		alt := st.clone()
		alt.r = g.define("r", "Bool", and(st.r, cond))
		g.call(nil, &d.call.Call, alt)
		// merge alt (executed) with st (skipped)
		skip := g.define("r", "Bool", and(st.r, not(cond)))
		keys := map[string]bool{}
		for k := range alt.heap {
			keys[k] = true
		}
		for k := range st.heap {
			keys[k] = true
		}
		delete(keys, "@epoch")
		if alt.heap["@epoch"] != st.heap["@epoch"] {
			for c := range g.m.comps {
				keys[c] = true
			}
			keys["alloc"] = true
		}
		merged := map[string]string{}
		for k := range keys {
			a, b := g.heapGet(alt, k), g.heapGet(st, k)
			if a == b {
				merged[k] = a
			} else {
				merged[k] = g.define("mh", g.compSort(k), ite(cond, a, b))
			}
		}
		if alt.heap["@epoch"] != st.heap["@epoch"] {
			g.nepoch++
			merged["@epoch"] = fmt.Sprintf("e%d", g.nepoch)
		} else if e := st.heap["@epoch"]; e != "" {
			merged["@epoch"] = e
		}
		st.heap = merged
		for k, a := range alt.locals {
			if b, ok := st.locals[k]; ok && a != b {
				st.locals[k] = g.define("ml", g.m.sortOf(k.Type().(*types.Pointer).Elem()), ite(cond, a, b))
			}
		}
		st.r = g.define("r", "Bool", or(alt.r, skip))
	}
	st.defers = nil
}

var _ = strings.TrimSpace
