package main

// Logical model: Go types -> SMT sorts, values, heap components, states.

import (
	"hash/fnv"
	"fmt"
	"go/types"
	"sort"
	"strings"

	"golang.org/x/tools/go/ssa"
)

const prelude = `(set-option :produce-models true)
(set-logic ALL)
(declare-datatypes ((Str 0)) (((mk-str (s-arr (Array Int Int)) (s-lo Int) (s-hi Int)))))
(declare-datatypes ((Slice 0)) (((mk-sl (sl-ref Int) (sl-off Int) (sl-len Int) (sl-cap Int)))))
(define-fun nilslice () Slice (mk-sl 0 0 0 0))
(define-fun zarr () (Array Int Int) ((as const (Array Int Int)) 0))
(define-fun emptystr () Str (mk-str zarr 0 0))
(define-fun godiv ((a Int) (b Int)) Int (ite (>= a 0) (ite (> b 0) (div a b) (- (div a (- b)))) (ite (> b 0) (- (div (- a) b)) (div (- a) (- b)))))
(define-fun gomod ((a Int) (b Int)) Int (- a (* b (godiv a b))))
(define-fun imin ((a Int) (b Int)) Int (ite (<= a b) a b))
(define-fun imax ((a Int) (b Int)) Int (ite (>= a b) a b))
; bit masks of a symbolic non-negative value with a constant (see bitop)
(declare-fun band (Int Int) Int)
(declare-fun bandnot (Int Int) Int)
(declare-fun bor (Int Int) Int)
(define-fun pow2 ((k Int)) Bool (or (= k 1) (= k 2) (= k 4) (= k 8) (= k 16) (= k 32) (= k 64) (= k 128) (= k 256) (= k 512) (= k 1024) (= k 2048) (= k 4096) (= k 8192) (= k 16384) (= k 32768) (= k 65536) (= k 131072) (= k 262144) (= k 524288) (= k 1048576)))
(assert (forall ((x Int) (k Int)) (! (and (<= 0 (band x k)) (<= (band x k) k) (=> (pow2 k) (or (= (band x k) 0) (= (band x k) k)))) :pattern ((band x k)))))
(assert (forall ((x Int) (k Int)) (! (=> (>= x 0) (and (<= 0 (bandnot x k)) (<= (bandnot x k) x))) :pattern ((bandnot x k)))))
(assert (forall ((x Int) (k Int)) (! (=> (>= x 0) (>= (bor x k) k)) :pattern ((bor x k)))))
(assert (forall ((x Int) (k Int)) (! (=> (pow2 k) (= (bor x k) (ite (= (band x k) k) x (+ x k)))) :pattern ((bor x k)))))
; string identity by content: sid(arr, lo, hi)
(declare-fun sid ((Array Int Int) Int Int) Int)
(declare-fun sidlen (Int) Int)
(declare-fun clofn (Int) Int)
(declare-fun clovar (Int Int) Int)
; eolA(a, p, h): first position q in [p,h) with a[q] = LF, else h
@EOLA@
; trimA(a, l, h): strings.TrimSpace of a[l:h) as a string value (uninterpreted)
@TRIMA@
; UTF-8 decoding at absolute position p of a[.., h): rune value and width (uninterpreted; ASCII axiom below)
(declare-fun runeAt ((Array Int Int) Int Int) Int)
(declare-fun runeW ((Array Int Int) Int Int) Int)
`

// Axioms about the uninterpreted prelude functions, quantified over an array
// ARR. For proofs ARR is universally quantified; for counterexample search the
// axioms are specialised to the arrays of the inputs (quantifying over arrays
// makes z3 give up on satisfiable queries at once).
type specDecl struct{ proof, cex string }

type arrAxiom struct{ vars, body, pats string }

var arrAxioms = []arrAxiom{
	{"(p Int) (h Int)", "(and (>= (runeW ARR p h) 1) (<= (runeW ARR p h) 4) (=> (< p h) (<= (+ p (runeW ARR p h)) h)) (>= (runeAt ARR p h) 0))", ":pattern ((runeW ARR p h))"},
	{"(p Int) (h Int)", "(=> (and (< p h) (<= 0 (select ARR p)) (< (select ARR p) 128)) (and (= (runeW ARR p h) 1) (= (runeAt ARR p h) (select ARR p))))", ":pattern ((runeAt ARR p h))"},
	{"(l Int) (h Int)", "(= (sidlen (sid ARR l h)) (- h l))", ":pattern ((sid ARR l h))"},
	{"(p Int) (h Int)", "(=> (<= p h) (and (<= p (eolA ARR p h)) (<= (eolA ARR p h) h)))", ":pattern ((eolA ARR p h))"},
	{"(p Int) (h Int)", "(=> (< (eolA ARR p h) h) (= (select ARR (eolA ARR p h)) 10))", ":pattern ((eolA ARR p h))"},
	{"(p Int) (h Int) (q Int)", "(=> (and (<= p q) (< q (eolA ARR p h))) (not (= (select ARR q) 10)))", ":pattern ((eolA ARR p h) (select ARR q))"},
	{"(l Int) (h Int)", "(and (<= 0 (s-lo (trimA ARR l h))) (<= (s-lo (trimA ARR l h)) (s-hi (trimA ARR l h))) (<= (- (s-hi (trimA ARR l h)) (s-lo (trimA ARR l h))) (imax 0 (- h l))))", ":pattern ((trimA ARR l h))"},
}

const eolADecl = "(declare-fun eolA ((Array Int Int) Int Int) Int)"
const eolARec = "(define-fun-rec eolA ((a (Array Int Int)) (p Int) (h Int)) Int (ite (>= p h) h (ite (= (select a p) 10) p (eolA a (+ p 1) h))))"

const trimADecl = "(declare-fun trimA ((Array Int Int) Int Int) Str)"
const trimARec = `(define-fun isspB ((c Int)) Bool (or (= c 32) (and (<= 9 c) (<= c 13))))
(define-fun-rec tsA ((a (Array Int Int)) (l Int) (h Int)) Int (ite (>= l h) h (ite (isspB (select a l)) (tsA a (+ l 1) h) l)))
(define-fun-rec teA ((a (Array Int Int)) (l Int) (h Int)) Int (ite (>= l h) l (ite (isspB (select a (- h 1))) (teA a l (- h 1)) h)))
(define-fun trimA ((a (Array Int Int)) (l Int) (h Int)) Str (mk-str a (tsA a l h) (teA a (tsA a l h) h)))`

func preludeText(cex bool) string {
	if cex {
		return strings.Replace(strings.Replace(prelude, "@EOLA@", eolARec, 1), "@TRIMA@", trimARec, 1)
	}
	return strings.Replace(strings.Replace(prelude, "@EOLA@", eolADecl, 1), "@TRIMA@", trimADecl, 1)
}

func preludeAxioms(arrays []string) string {
	var b strings.Builder
	if arrays != nil {
		// counterexample mode: eolA is defined recursively, the other functions stay free
		return ""
	}
	if arrays == nil {
		for _, a := range arrAxioms {
			fmt.Fprintf(&b, "(assert (forall ((axa (Array Int Int)) %s) (! %s %s)))\n", a.vars, strings.ReplaceAll(a.body, "ARR", "axa"), strings.ReplaceAll(a.pats, "ARR", "axa"))
		}
		return b.String()
	}
	for _, arr := range arrays {
		for _, a := range arrAxioms {
			fmt.Fprintf(&b, "(assert (forall (%s) (! %s %s)))\n", a.vars, strings.ReplaceAll(a.body, "ARR", arr), strings.ReplaceAll(a.pats, "ARR", arr))
		}
	}
	return b.String()
}

type Val struct {
	S    string
	Sort string
	G    types.Type
	Tup  []Val
	Loc  *Loc
	Fn   *ssa.Function
	Clo  []Val
	Bltn string
	Lazy bool // Loc is read at evaluation time (captured variables in contracts)
}

type pathStep struct {
	Field int // struct field index, or -1
	T     types.Type // the aggregate type (named struct) the step applies to
	St    *types.Struct
	Idx   string // array index term when Field == -1
	ESort string
}

type Loc struct {
	Kind  string // local field elem cell global
	Alloc *ssa.Alloc
	Base  string
	Comp  string
	Idx   string
	Path  []pathStep
	T     types.Type
}

type deferEntry struct {
	call *ssa.Defer
	cond string // reach term at registration
	args []Val
	fn   Val
}

type State struct {
	heap   map[string]string
	locals map[*ssa.Alloc]string
	r      string
	defers []deferEntry
}

func (s *State) clone() *State {
	n := &State{heap: map[string]string{}, locals: map[*ssa.Alloc]string{}, r: s.r}
	for k, v := range s.heap {
		n.heap[k] = v
	}
	for k, v := range s.locals {
		n.locals[k] = v
	}
	n.defers = append([]deferEntry(nil), s.defers...)
	return n
}

// Mod is the module-level generator state shared by all functions of a run.
type Mod struct {
	structs   map[string]*types.Struct // sort name -> struct
	structOrd []string
	opaque    map[string]bool
	comps     map[string]string // heap component -> SMT sort
	lits      map[string]string // string literal -> array const name
	litOrd    []string
	specs     *SpecSet
	funcsDecl []specDecl // SMT text of spec function declarations, built once
	verified  func(pkgPath string) bool
	ifaceTags map[string]int
	extraDecl []string
	extraSeen map[string]bool
}

func newMod(ss *SpecSet) *Mod {
	m := &Mod{structs: map[string]*types.Struct{}, opaque: map[string]bool{}, comps: map[string]string{}, lits: map[string]string{}, specs: ss, ifaceTags: map[string]int{}, extraSeen: map[string]bool{}}
	for _, gv := range ss.Ghost {
		m.comps[gv.Name] = gv.Type
	}
	return m
}

func san(s string) string {
	var b strings.Builder
	for _, c := range s {
		switch {
		case c >= 'a' && c <= 'z', c >= 'A' && c <= 'Z', c >= '0' && c <= '9', c == '_':
			b.WriteRune(c)
		case c == '.', c == '/':
			b.WriteByte('_')
		case c == '*':
			b.WriteString("P")
		case c == '[':
			b.WriteString("L")
		case c == ']':
			b.WriteString("R")
		case c == ' ', c == '(', c == ')':
		default:
			fmt.Fprintf(&b, "x%x", c)
		}
	}
	return b.String()
}

func shortTypeName(n *types.Named) string {
	o := n.Obj()
	if o.Pkg() == nil {
		return o.Name()
	}
	p := o.Pkg().Path()
	if i := strings.LastIndex(p, "/"); i >= 0 {
		p = p[i+1:]
	}
	return p + "_" + o.Name()
}

// sortOf maps a Go type to an SMT sort, declaring datatypes on demand.
func (m *Mod) sortOf(t types.Type) string {
	switch u := t.(type) {
	case *types.Named:
		if st, ok := u.Underlying().(*types.Struct); ok {
			name := "S_" + san(shortTypeName(u))
			if _, ok := m.structs[name]; !ok && !m.opaque[name] {
				if u.Obj().Pkg() != nil && m.verified != nil && !m.verified(u.Obj().Pkg().Path()) {
					m.opaque[name] = true
					m.structOrd = append(m.structOrd, name)
				} else {
					m.structs[name] = st
					// declare field sorts first (dependency order)
					for i := 0; i < st.NumFields(); i++ {
						m.sortOf(st.Field(i).Type())
					}
					m.structOrd = append(m.structOrd, name)
				}
			}
			return name
		}
		return m.sortOf(u.Underlying())
	case *types.Alias:
		return m.sortOf(types.Unalias(u))
	case *types.Basic:
		switch {
		case u.Info()&types.IsBoolean != 0:
			return "Bool"
		case u.Info()&types.IsInteger != 0:
			return "Int"
		case u.Info()&types.IsString != 0:
			return "Str"
		case u.Info()&types.IsFloat != 0:
			return "Real"
		case u.Kind() == types.UnsafePointer:
			return "Int"
		case u.Kind() == types.UntypedNil:
			return "Int"
		}
	case *types.Pointer, *types.Map, *types.Interface, *types.Signature, *types.Chan:
		return "Int"
	case *types.Slice:
		return "Slice"
	case *types.Array:
		return "(Array Int " + m.sortOf(u.Elem()) + ")"
	case *types.Struct:
		name := "S_anon" + san(u.String())
		if len(name) > 60 {
			name = fmt.Sprintf("S_anon%d", len(m.structs))
			for n, s := range m.structs {
				if types.Identical(s, u) {
					return n
				}
			}
		}
		if _, ok := m.structs[name]; !ok {
			m.structs[name] = u
			for i := 0; i < u.NumFields(); i++ {
				m.sortOf(u.Field(i).Type())
			}
			m.structOrd = append(m.structOrd, name)
		}
		return name
	case *types.Tuple:
		return "Tuple"
	case *types.TypeParam:
		return "Int"
	}
	return "Int"
}

func (m *Mod) zeroOf(t types.Type) string {
	s := m.sortOf(t)
	return m.zeroOfSort(s, t)
}

// litZero expands the prelude's zero constants into value literals (cvc5 wants a
// value as the argument of a constant array).
func litZero(z string) string {
	z = strings.ReplaceAll(z, "emptystr", "(mk-str ((as const (Array Int Int)) 0) 0 0)")
	z = strings.ReplaceAll(z, "nilslice", "(mk-sl 0 0 0 0)")
	z = strings.ReplaceAll(z, "zarr", "((as const (Array Int Int)) 0)")
	return z
}

func (m *Mod) zeroOfSort(s string, t types.Type) string {
	switch s {
	case "Bool":
		return "false"
	case "Int":
		return "0"
	case "Real":
		return "0.0"
	case "Str":
		return "emptystr"
	case "Slice":
		return "nilslice"
	}
	if strings.HasPrefix(s, "(Array Int ") {
		var et types.Type
		if t != nil {
			if a, ok := t.Underlying().(*types.Array); ok {
				et = a.Elem()
			}
		}
		es := strings.TrimSuffix(strings.TrimPrefix(s, "(Array Int "), ")")
		return "((as const " + s + ") " + litZero(m.zeroOfSort(es, et)) + ")"
	}
	if m.opaque[s] {
		return "zero_" + s
	}
	if st, ok := m.structs[s]; ok {
		if st.NumFields() == 0 {
			return "mk-" + s
		}
		var parts []string
		for i := 0; i < st.NumFields(); i++ {
			parts = append(parts, m.zeroOf(st.Field(i).Type()))
		}
		return "(mk-" + s + " " + strings.Join(parts, " ") + ")"
	}
	return "0"
}

// datatype declarations in dependency order
func (m *Mod) structDecls() string {
	var b strings.Builder
	for _, name := range m.structOrd {
		if m.opaque[name] {
			fmt.Fprintf(&b, "(declare-sort %s 0)\n(declare-const zero_%s %s)\n", name, name, name)
			continue
		}
		st := m.structs[name]
		if st.NumFields() == 0 {
			fmt.Fprintf(&b, "(declare-datatypes ((%s 0)) (((mk-%s))))\n", name, name)
			continue
		}
		var fs []string
		for i := 0; i < st.NumFields(); i++ {
			fs = append(fs, fmt.Sprintf("(%s.%s %s)", name, fieldName(st, i), m.sortOf(st.Field(i).Type())))
		}
		fmt.Fprintf(&b, "(declare-datatypes ((%s 0)) (((mk-%s %s))))\n", name, name, strings.Join(fs, " "))
	}
	return b.String()
}

func fieldName(st *types.Struct, i int) string {
	n := st.Field(i).Name()
	if n == "_" {
		return fmt.Sprintf("blank%d", i)
	}
	return n
}

// heap component helpers
func (m *Mod) compSliceHeap(elemSort string) string {
	c := "H_" + san(elemSort)
	m.comps[c] = "(Array Int (Array Int " + elemSort + "))"
	return c
}
func (m *Mod) compField(structSort, field, fsort string) string {
	c := "F_" + structSort + "_" + field
	m.comps[c] = "(Array Int " + fsort + ")"
	return c
}
func (m *Mod) compCell(sort string) string {
	c := "C_" + san(sort)
	m.comps[c] = "(Array Int " + sort + ")"
	return c
}
func (m *Mod) compGlobal(g *ssa.Global) string {
	c := "G_" + san(g.Pkg.Pkg.Name()+"_"+g.Name())
	m.comps[c] = m.sortOf(g.Type().(*types.Pointer).Elem())
	return c
}
func (m *Mod) compMap(ksort, vsort string) (string, string) {
	d := "Md_" + san(ksort) + "_" + san(vsort)
	v := "Mv_" + san(ksort) + "_" + san(vsort)
	m.comps[d] = "(Array Int (Array " + ksort + " Bool))"
	m.comps[v] = "(Array Int (Array " + ksort + " " + vsort + "))"
	return d, v
}

func (m *Mod) compNames() []string {
	var k []string
	for c := range m.comps {
		k = append(k, c)
	}
	sort.Strings(k)
	return k
}

// string literal -> (array const, length)
func (m *Mod) litArr(s string) string {
	if n, ok := m.lits[s]; ok {
		return n
	}
	n := fmt.Sprintf("lit%d", len(m.lits))
	m.lits[s] = n
	m.litOrd = append(m.litOrd, s)
	return n
}

func (m *Mod) litDecls(cex bool, used func(name string) bool) string {
	var b strings.Builder
	for i, s := range m.litOrd {
		n := m.lits[s]
		if used != nil && !used(n) {
			continue // this query never mentions the literal
		}
		fmt.Fprintf(&b, "(declare-const %s (Array Int Int)) ; %q\n", n, trunc(s, 40))
		for j := 0; j < len(s); j++ {
			fmt.Fprintf(&b, "(assert (= (select %s %d) %d))\n", n, j, s[j])
		}
		// literal identity: distinct literals have distinct ids
		id := fmt.Sprintf("(- %d)", 1000+i)
		fmt.Fprintf(&b, "(assert (= (sid %s 0 %d) %s))\n", n, len(s), id)
		// streq_<lit>(a,l,h): the window a[l:h) holds exactly this literal
		parts := []string{fmt.Sprintf("(= (- h l) %d)", len(s))}
		for j := 0; j < len(s); j++ {
			parts = append(parts, fmt.Sprintf("(= (select a (+ l %d)) %d)", j, s[j]))
		}
		bytewise := and(parts...)
		if cex || len(s) == 0 {
			fmt.Fprintf(&b, "(define-fun streq_%s ((a (Array Int Int)) (l Int) (h Int)) Bool %s)\n", n, bytewise)
		} else {
			// proofs: equality is identity of content ids, linked to the bytes by an axiom on every sid term
			fmt.Fprintf(&b, "(define-fun streq_%s ((a (Array Int Int)) (l Int) (h Int)) Bool (= (sid a l h) %s))\n", n, id)
			fmt.Fprintf(&b, "(assert (forall ((a (Array Int Int)) (l Int) (h Int)) (! (= (= (sid a l h) %s) %s) :pattern ((sid a l h)))))\n", id, bytewise)
		}
	}
	return b.String()
}

func trunc(s string, n int) string {
	if len(s) > n {
		return s[:n] + "..."
	}
	return s
}

func (m *Mod) strLit(s string) Val {
	if s == "" {
		return Val{S: "emptystr", Sort: "Str", G: types.Typ[types.String]}
	}
	return Val{S: fmt.Sprintf("(mk-str %s 0 %d)", m.litArr(s), len(s)), Sort: "Str", G: types.Typ[types.String]}
}

func intLit(n int64) string {
	if n < 0 {
		return fmt.Sprintf("(- %d)", -n)
	}
	return fmt.Sprintf("%d", n)
}

func and(xs ...string) string {
	var o []string
	for _, x := range xs {
		if x == "true" || x == "" {
			continue
		}
		if x == "false" {
			return "false"
		}
		o = append(o, x)
	}
	switch len(o) {
	case 0:
		return "true"
	case 1:
		return o[0]
	}
	return "(and " + strings.Join(o, " ") + ")"
}

func or(xs ...string) string {
	var o []string
	for _, x := range xs {
		if x == "false" || x == "" {
			continue
		}
		if x == "true" {
			return "true"
		}
		o = append(o, x)
	}
	switch len(o) {
	case 0:
		return "false"
	case 1:
		return o[0]
	}
	return "(or " + strings.Join(o, " ") + ")"
}

func not(x string) string {
	switch x {
	case "true":
		return "false"
	case "false":
		return "true"
	}
	if strings.HasPrefix(x, "(not ") && balanced(x[5:len(x)-1]) {
		return x[5 : len(x)-1]
	}
	return "(not " + x + ")"
}

func balanced(s string) bool {
	d := 0
	for i := 0; i < len(s); i++ {
		switch s[i] {
		case '(':
			d++
		case ')':
			d--
			if d < 0 {
				return false
			}
		}
	}
	return d == 0
}

func implies(a, b string) string {
	if a == "true" {
		return b
	}
	if a == "false" || b == "true" {
		return "true"
	}
	return "(=> " + a + " " + b + ")"
}

func ite(c, a, b string) string {
	if c == "true" {
		return a
	}
	if c == "false" {
		return b
	}
	if a == b {
		return a
	}
	return "(ite " + c + " " + a + " " + b + ")"
}

func add(a, b string) string {
	if b == "0" {
		return a
	}
	if a == "0" {
		return b
	}
	return "(+ " + a + " " + b + ")"
}

func sub(a, b string) string {
	if b == "0" {
		return a
	}
	return "(- " + a + " " + b + ")"
}

// Slice/Str component access with constructor folding
func comp(sel, ctor string, idx int, v string) string {
	if strings.HasPrefix(v, "("+ctor+" ") {
		parts := splitSexp(v[len(ctor)+2 : len(v)-1])
		if idx < len(parts) {
			return parts[idx]
		}
	}
	if v == "nilslice" && ctor == "mk-sl" {
		return "0"
	}
	if v == "emptystr" && ctor == "mk-str" {
		if idx == 0 {
			return "zarr"
		}
		return "0"
	}
	return "(" + sel + " " + v + ")"
}

func splitSexp(s string) []string {
	var out []string
	d := 0
	start := -1
	for i := 0; i < len(s); i++ {
		c := s[i]
		switch {
		case c == '(':
			if d == 0 && start < 0 {
				start = i
			}
			d++
		case c == ')':
			d--
			if d == 0 {
				out = append(out, s[start:i+1])
				start = -1
			}
		case c == ' ' || c == '\n' || c == '\t':
			if d == 0 && start >= 0 {
				out = append(out, s[start:i])
				start = -1
			}
		case c == '|':
			// quoted symbol
			if d == 0 && start < 0 {
				start = i
			}
			j := strings.IndexByte(s[i+1:], '|')
			if j >= 0 {
				i += j + 1
			}
		default:
			if d == 0 && start < 0 {
				start = i
			}
		}
	}
	if start >= 0 {
		out = append(out, s[start:])
	}
	return out
}

func slRef(v string) string { return comp("sl-ref", "mk-sl", 0, v) }
func slOff(v string) string { return comp("sl-off", "mk-sl", 1, v) }
func slLen(v string) string { return comp("sl-len", "mk-sl", 2, v) }
func slCap(v string) string { return comp("sl-cap", "mk-sl", 3, v) }
func sArr(v string) string  { return comp("s-arr", "mk-str", 0, v) }
func sOff(v string) string  { return comp("s-lo", "mk-str", 1, v) }
func sHi(v string) string   { return comp("s-hi", "mk-str", 2, v) }
func sLen(v string) string {
	lo, hi := sOff(v), sHi(v)
	if lo == "0" {
		return hi
	}
	if strings.HasPrefix(hi, "(+ "+lo+" ") {
		rest := splitSexp(hi[1 : len(hi)-1])
		if len(rest) == 3 && rest[1] == lo {
			return rest[2]
		}
	}
	return "(- " + hi + " " + lo + ")"
}
func mkSl(r, o, l, c string) string {
	return "(mk-sl " + r + " " + o + " " + l + " " + c + ")"
}
// mkStr builds a string value from array, offset and length; strings are (arr, lo, hi).
func mkStr(a, o, l string) string { return "(mk-str " + a + " " + o + " " + add(o, l) + ")" }
func mkStrLH(a, lo, hi string) string { return "(mk-str " + a + " " + lo + " " + hi + ")" }
func sel(a, i string) string      { return "(select " + a + " " + i + ")" }
func store(a, i, v string) string { return "(store " + a + " " + i + " " + v + ")" }
func eq(a, b string) string {
	if a == b {
		return "true"
	}
	return "(= " + a + " " + b + ")"
}

// fnID: a stable integer naming a function in closure facts (clofn).
func fnID(name string) int {
	h := fnv.New32a()
	h.Write([]byte(name))
	return int(h.Sum32()%1000000000) + 1
}
