package main

import (
	"fmt"
	"go/token"
	"go/types"
	"sort"
	"strings"

	"golang.org/x/tools/go/ssa"
)

func fnShort(fn *ssa.Function) string {
	if recv := fn.Signature.Recv(); recv != nil {
		t := recv.Type()
		star := ""
		if p, ok := t.(*types.Pointer); ok {
			t = p.Elem()
			star = "*"
		}
		n := t.String()
		if nt, ok := t.(*types.Named); ok {
			n = nt.Obj().Name()
		}
		return "(" + star + n + ")." + fn.Name()
	}
	return fn.Name()
}

func dynFieldName(u *ssa.UnOp) string {
	if al, ok := u.X.(*ssa.Alloc); ok && al.Comment != "" {
		return al.Comment // a function value held in a (captured) local variable
	}
	if fv, ok := u.X.(*ssa.FreeVar); ok && u.Op == token.MUL {
		return fv.Name() // a function value held in a variable captured by reference
	}
	fa, ok := u.X.(*ssa.FieldAddr)
	if !ok {
		return ""
	}
	var base string
	switch p := fa.X.(type) {
	case *ssa.FieldAddr: // a function-typed field of an embedded struct value: ts.params.Setup
		inner := dynFieldName(&ssa.UnOp{X: p})
		if inner == "" {
			return ""
		}
		base = inner
	case *ssa.Parameter:
		base = p.Name()
	case *ssa.FreeVar:
		base = p.Name()
	case *ssa.UnOp: // a captured variable holding the pointer: *srv
		if fv, ok := p.X.(*ssa.FreeVar); ok && p.Op == token.MUL {
			base = fv.Name()
		} else if al, ok := p.X.(*ssa.Alloc); ok && p.Op == token.MUL && al.Comment != "" {
			base = al.Comment // a parameter or local spilled to a cell because a closure captures it
		} else {
			return ""
		}
	default:
		return ""
	}
	st := fa.X.Type().Underlying().(*types.Pointer).Elem().Underlying().(*types.Struct)
	return base + "." + st.Field(fa.Field).Name()
}

func (g *Gen) calleeContract(cc *ssa.CallCommon) *Contract {
	if cc.IsInvoke() {
		return g.world.contractForMethod(cc, g.fn)
	}
	switch f := cc.Value.(type) {
	case *ssa.Function:
		return g.world.contractForIn(f, g.fn)
	case *ssa.MakeClosure:
		return g.world.contractFor(f.Fn.(*ssa.Function))
	case *ssa.Parameter:
		if g.c != nil && g.c.DynCallee != nil {
			return g.c.DynCallee[f.Name()]
		}
	case *ssa.FreeVar: // a function value captured by value
		if g.c != nil && g.c.DynCallee != nil {
			return g.c.DynCallee[f.Name()]
		}
	case *ssa.UnOp:
		// a function-typed field loaded from a parameter: callee c.now
		if g.c != nil && g.c.DynCallee != nil {
			if n := dynFieldName(f); n != "" {
				return g.c.DynCallee[n]
			}
		}
	}
	return nil
}

// run generates all obligations of the function.
func (g *Gen) run() (err error) {
	defer func() {
		if r := recover(); r != nil {
			switch e := r.(type) {
			case unsupported:
				g.obls = append(g.obls, &Obl{Name: g.key + "/unsupported", Fn: g.key, Kind: "unsupported", Src: e.msg, Verdict: "unsupported", gen: g})
			case specErr:
				// the contract no longer fits the function (a clause names something the code does
				// not have): a failed obligation by name, reported like any other, not a machinery error
				g.obls = append(g.obls, &Obl{Name: g.key + "/contract/unevaluable", Fn: g.key, Kind: "contract", Src: "a clause of the contract cannot be evaluated against the current code",
					Verdict: "unevaluable", Output: e.msg, gen: g})
			default:
				panic(r)
			}
		}
	}()
	fn := g.fn
	g.vals = map[ssa.Value]Val{}
	g.in = map[*ssa.BasicBlock]*State{}
	g.out = map[*ssa.BasicBlock]*State{}
	g.epochs = map[string]string{}
	g.callOrd = map[string]int{}
	g.kindOrd = map[string]int{}
	g.params = map[string]Val{}
	g.usedExt = map[string]bool{}
	st := &State{heap: map[string]string{}, locals: map[*ssa.Alloc]string{}, r: "true"}
	g.entry = st.clone()
	alloc0 := g.heapGet(st, "alloc")
	g.emit("(assert (>= " + alloc0 + " 0))")
	// parameters
	for i, p := range fn.Params {
		sort := g.m.sortOf(p.Type())
		n := "p_" + san(p.Name())
		g.emit("(declare-const " + n + " " + sort + ")")
		g.emit("(assert " + g.wf(n, p.Type(), alloc0) + ")")
		v := Val{S: n, Sort: sort, G: p.Type()}
		g.vals[p] = v
		name := p.Name()
		if g.c != nil && i < len(g.c.ParamN) && g.c.ParamN[i] != "" && g.c.Extern {
			name = g.c.ParamN[i]
		}
		g.params[name] = v
		if g.entryParams == nil {
			g.entryParams = map[string]Val{}
		}
		g.entryParams[name] = v
		g.paramSMT = append(g.paramSMT, n)
	}
	for i, fv := range fn.FreeVars {
		sort := g.m.sortOf(fv.Type())
		n := fmt.Sprintf("fv%d_%s", i, san(fv.Name()))
		g.emit("(declare-const " + n + " " + sort + ")")
		g.emit("(assert " + g.wf(n, fv.Type(), alloc0) + ")")
		if _, isPtr := fv.Type().Underlying().(*types.Pointer); isPtr {
			g.emit("(assert (> " + n + " 0))") // the address of a captured variable is never nil
		}
		g.vals[fv] = Val{S: n, Sort: sort, G: fv.Type()}
		g.params[fv.Name()] = g.lazyCell(Val{S: n, Sort: sort, G: fv.Type()})
		g.paramSMT = append(g.paramSMT, n)
	}
	{
		// captured variables are distinct variables
		var addrs []string
		for i, fv := range fn.FreeVars {
			if _, isPtr := fv.Type().Underlying().(*types.Pointer); isPtr {
				addrs = append(addrs, fmt.Sprintf("fv%d_%s", i, san(fv.Name())))
			}
		}
		if len(addrs) > 1 {
			g.emit("(assert (distinct " + strings.Join(addrs, " ") + "))")
		}
	}
	// ghost names bound to results of calls through function-typed parameters
	if g.c != nil {
		for pname, dc := range g.c.DynCallee {
			for gname, rname := range dc.Bind {
				type namedV interface {
					Name() string
					Type() types.Type
				}
				var holders []namedV
				for _, p := range fn.Params {
					holders = append(holders, p)
				}
				for _, fv := range fn.FreeVars {
					holders = append(holders, fv)
				}
				for _, p := range holders {
					var sig *types.Signature
					ok := false
					if p.Name() == pname {
						sig, ok = p.Type().Underlying().(*types.Signature)
						if pt, isP := p.Type().Underlying().(*types.Pointer); !ok && isP {
							// a function value in a variable captured by reference
							sig, ok = pt.Elem().Underlying().(*types.Signature)
						}
					} else if strings.HasPrefix(pname, p.Name()+".") {
						if pt, isP := p.Type().Underlying().(*types.Pointer); isP {
							if st, isS := pt.Elem().Underlying().(*types.Struct); isS {
								for fi := 0; fi < st.NumFields(); fi++ {
									if st.Field(fi).Name() == pname[len(p.Name())+1:] {
										sig, ok = st.Field(fi).Type().Underlying().(*types.Signature)
									}
								}
							}
						}
					}
					if !ok {
						continue
					}
					for i := 0; i < sig.Results().Len() && i < len(dc.ResultN); i++ {
						if dc.ResultN[i] == rname {
							t := sig.Results().At(i).Type()
							sort := g.m.sortOf(t)
							n := "ghost_" + san(gname)
							g.emit("(declare-const " + n + " " + sort + ")")
							g.emit("(assert " + g.wf(n, t, alloc0) + ")")
							g.params[gname] = Val{S: n, Sort: sort, G: t}
						}
					}
				}
			}
		}
	}
	// ghost names bound to results of particular calls (at call f#k: bind g = result)
	if g.c != nil {
		ord := map[string]int{}
		// calls in source order; a helper that is executed in place of its call (inline.go)
		// contributes its calls at that point
		var calls []ssa.CallInstruction
		var walk func(f *ssa.Function, depth int)
		walk = func(f *ssa.Function, depth int) {
			for _, b := range f.Blocks {
				for _, in := range b.Instrs {
					ci, ok := in.(ssa.CallInstruction)
					if !ok {
						continue
					}
					calls = append(calls, ci)
					if hf, ok := ci.Common().Value.(*ssa.Function); ok && depth < maxInlineDepth && g.calleeContract(ci.Common()) == nil && g.inlinable(hf) {
						walk(hf, depth+1)
					}
				}
			}
		}
		walk(fn, 0)
		for _, ci := range calls {
			{
				cc := ci.Common()
				if _, isB := cc.Value.(*ssa.Builtin); isB {
					continue
				}
				cn := calleeName(cc)
				ord[cn]++
				for _, cs := range g.c.Calls {
					if cs.Callee != cn || cs.K != ord[cn] || cs.Bind == nil {
						continue
					}
					ctc := g.calleeContract(cc)
					names := g.resultNames(cc.Signature(), ctc)
					for gname, rname := range cs.Bind {
						for i, rn := range names {
							if rn == rname {
								t := cc.Signature().Results().At(i).Type()
								sort := g.m.sortOf(t)
								n := "ghost_" + san(gname)
								g.emit("(declare-const " + n + " " + sort + ")")
								g.params[gname] = Val{S: n, Sort: sort, G: t}
							}
						}
						// an argument of the call, by the callee's parameter name
						var pn []string
						if ctc != nil && ctc.Extern {
							pn = ctc.ParamN
						} else if f, ok := cc.Value.(*ssa.Function); ok {
							for _, p := range f.Params {
								pn = append(pn, p.Name())
							}
						}
						off := 0
						if cc.IsInvoke() {
							off = 1
						}
						for i, name := range pn {
							if name == rname && i-off >= 0 && i-off < len(cc.Args) {
								t := cc.Args[i-off].Type()
								sort := g.m.sortOf(t)
								n := "ghost_" + san(gname)
								g.emit("(declare-const " + n + " " + sort + ")")
								g.params[gname] = Val{S: n, Sort: sort, G: t}
							}
						}
					}
				}
			}
		}
	}
	// lemmas/axioms this function uses
	g.emitUses(st)
	// preconditions
	if g.c != nil {
		env := g.env(st, g.params)
		for _, r := range g.c.Requires {
			g.assume(st, env.tr(r).S)
		}
	}
	g.entry = st.clone()
	g.analyseLoops()
	order := g.rpo()
	for _, b := range order {
		g.curBlock = b
		var bst *State
		if b.Index == 0 {
			bst = st
		} else if li := g.loops[b]; li != nil {
			bst = g.enterLoop(li)
		} else {
			bst = g.merge(b, b.Preds)
		}
		g.in[b] = bst.clone()
		g.block(b, bst)
		g.out[b] = bst
		// loop postconditions: proved on every edge that leaves the loop
		for _, s := range b.Succs {
			for _, li := range g.loops {
				if len(li.spec.After) == 0 || !li.blocks[b] || li.blocks[s] || g.backEdge[[2]int{b.Index, s.Index}] {
					continue
				}
				est := bst.clone()
				est.r = g.define("x", "Bool", and(bst.r, g.edgeCond(b, s)))
				// follow forwarding blocks (a lone jump, e.g. the body of `break`) so that
				// variables assigned on the way out have their value at the join
				from, to := b, s
				for len(to.Succs) == 1 && len(to.Preds) == 1 {
					fwd := true
					for _, in := range to.Instrs {
						switch in.(type) {
						case *ssa.Jump, *ssa.DebugRef:
						default:
							fwd = false
						}
					}
					if !fwd {
						break
					}
					from, to = to, to.Succs[0]
				}
				env := g.env(est, g.scopeAt(to, from, est))
				for j, a := range li.spec.After {
					g.assertExpr(est, env, fmt.Sprintf("loop%d", li.ord), fmt.Sprintf("after%d", j+1), a, li.spec.AfterSrc[j], li.minPos)
				}
			}
		}
		// back edges leaving this block
		for _, s := range b.Succs {
			if g.backEdge[[2]int{b.Index, s.Index}] {
				g.backEdgeObls(b, g.loops[s])
			}
		}
	}
	// vacuity guard: every call-site clause of the contract must have found its call
	if g.c != nil {
		for _, cs := range g.c.Calls {
			if !cs.Matched && !cs.Optional {
				g.obls = append(g.obls, &Obl{Name: fmt.Sprintf("%s/callsite/%s#%d/unmatched", g.key, cs.Callee, cs.K), Fn: g.key, Kind: "vacuity", Verdict: "vacuous",
					Src: "the contract has a call-site clause for a call that does not occur in the function", Output: "no call of " + cs.Callee + " with that ordinal", gen: g})
			}
		}
		for k := range g.c.Loops {
			found := false
			for _, li := range g.loops {
				if li.ord == k {
					found = true
				}
			}
			if ls := g.c.Loops[k]; !found && ls != nil && len(ls.After) == 0 && len(ls.Step) == 0 {
				// invariants, decreases clauses and hints are proof aids for a loop; when the loop is
				// gone (replaced by a library call, say) they have nothing left to support and nothing
				// is lost.  Loop postconditions (after / step) are specification and stay obligations.
				g.warnings = append(g.warnings, fmt.Sprintf("loop %d no longer exists: its invariant/decreases/hint clauses are ignored", k))
				continue
			}
			if !found {
				g.obls = append(g.obls, &Obl{Name: fmt.Sprintf("%s/loop%d/unmatched", g.key, k), Fn: g.key, Kind: "vacuity", Verdict: "vacuous",
					Src: "the contract has clauses for a loop that does not exist", Output: fmt.Sprintf("function has %d loops", len(g.loops)), gen: g})
			}
		}
	}
	return nil
}

func (g *Gen) emitUses(st *State) {
	if g.c == nil {
		return
	}
	env := g.env(st, map[string]Val{})
	for _, ax := range g.m.specs.Axioms {
		use := !ax.IsLemma && ax.PkgDir != "" && ax.PkgDir == g.c.PkgDir
		for _, u := range g.c.Uses {
			if u == ax.Name {
				use = true
			}
		}
		if use {
			g.emit("(assert " + env.tr(ax.Body).S + ") ; " + ax.Name)
			g.uses = append(g.uses, ax)
		}
	}
}

func (g *Gen) merge(b *ssa.BasicBlock, preds []*ssa.BasicBlock) *State {
	type inc struct {
		st *State
		e  string
		p  *ssa.BasicBlock
	}
	var ins []inc
	for _, p := range preds {
		if g.backEdge[[2]int{p.Index, b.Index}] {
			continue
		}
		ps := g.out[p]
		if ps == nil {
			continue // unreachable predecessor
		}
		e := g.define("e", "Bool", and(ps.r, g.edgeCond(p, b)))
		ins = append(ins, inc{ps, e, p})
	}
	if len(ins) == 0 {
		return &State{heap: map[string]string{}, locals: map[*ssa.Alloc]string{}, r: "false"}
	}
	if len(ins) == 1 {
		n := ins[0].st.clone()
		n.r = ins[0].e
		g.phis(b, func(phi *ssa.Phi) string {
			for i, p := range b.Preds {
				if p == ins[0].p {
					return g.val(phi.Edges[i]).S
				}
			}
			return ""
		})
		return n
	}
	n := &State{heap: map[string]string{}, locals: map[*ssa.Alloc]string{}}
	var es []string
	for _, in := range ins {
		es = append(es, in.e)
	}
	n.r = g.define("r", "Bool", or(es...))
	// heap: if epochs differ, everything unknown is per-epoch; merge component-wise
	keys := map[string]bool{}
	for _, in := range ins {
		for k := range in.st.heap {
			keys[k] = true
		}
	}
	ep := ins[0].st.heap["@epoch"]
	sameEpoch := true
	for _, in := range ins {
		if in.st.heap["@epoch"] != ep {
			sameEpoch = false
		}
	}
	if !sameEpoch {
		// also merge every known component
		for c := range g.m.comps {
			keys[c] = true
		}
		keys["alloc"] = true
		g.nepoch++
		n.heap["@epoch"] = fmt.Sprintf("e%d", g.nepoch)
	} else if ep != "" {
		n.heap["@epoch"] = ep
	}
	delete(keys, "@epoch")
	for _, k := range sortedBoolKeys(keys) {
		var ts []string
		for _, in := range ins {
			ts = append(ts, g.heapGet(in.st, k))
		}
		n.heap[k] = g.mergeTerms("mh", g.compSort(k), es, ts)
	}
	lkeys := map[*ssa.Alloc]bool{}
	for _, in := range ins {
		for k := range in.st.locals {
			lkeys[k] = true
		}
	}
	for k := range lkeys {
		var ts []string
		ok := true
		for _, in := range ins {
			t, has := in.st.locals[k]
			if !has {
				ok = false
			}
			ts = append(ts, t)
		}
		if ok {
			n.locals[k] = g.mergeTerms("ml", g.m.sortOf(k.Type().(*types.Pointer).Elem()), es, ts)
		}
	}
	// defers: union in registration order
	seen := map[*ssa.Defer]bool{}
	for _, in := range ins {
		for _, d := range in.st.defers {
			if !seen[d.call] {
				seen[d.call] = true
				n.defers = append(n.defers, d)
			}
		}
	}
	g.phis(b, func(phi *ssa.Phi) string {
		var ts []string
		for _, in := range ins {
			for i, p := range b.Preds {
				if p == in.p {
					ts = append(ts, g.val(phi.Edges[i]).S)
					break
				}
			}
		}
		return g.mergeTermsRaw(es, ts)
	})
	return n
}

func sortedBoolKeys(m map[string]bool) []string {
	var k []string
	for s := range m {
		k = append(k, s)
	}
	sort.Strings(k)
	return k
}

func (g *Gen) mergeTermsRaw(es, ts []string) string {
	same := true
	for _, t := range ts {
		if t != ts[0] {
			same = false
		}
	}
	if same {
		return ts[0]
	}
	r := ts[len(ts)-1]
	for i := len(ts) - 2; i >= 0; i-- {
		r = ite(es[i], ts[i], r)
	}
	return r
}

func (g *Gen) mergeTerms(prefix, sort string, es, ts []string) string {
	r := g.mergeTermsRaw(es, ts)
	if r == ts[0] {
		return r
	}
	return g.define(prefix, sort, r)
}

func (g *Gen) phis(b *ssa.BasicBlock, f func(*ssa.Phi) string) {
	// phis are evaluated simultaneously
	type pv struct {
		phi *ssa.Phi
		s   string
	}
	var vs []pv
	for _, in := range b.Instrs {
		phi, ok := in.(*ssa.Phi)
		if !ok {
			break
		}
		vs = append(vs, pv{phi, f(phi)})
	}
	for _, v := range vs {
		g.setVal(v.phi, v.s, v.phi.Type())
	}
}

// ---- loops ----

func (g *Gen) enterLoop(li *loopInfo) *State {
	b := li.head
	var entries []*ssa.BasicBlock
	for _, p := range b.Preds {
		if !g.backEdge[[2]int{p.Index, b.Index}] {
			entries = append(entries, p)
		}
	}
	// invariant on entry, per entering edge
	for _, p := range entries {
		ps := g.out[p]
		if ps == nil {
			continue
		}
		est := ps.clone()
		est.r = g.define("e", "Bool", and(ps.r, g.edgeCond(p, b)))
		vars := g.scopeAt(b, p, est)
		env := g.env(est, vars)
		for j, inv := range li.spec.Inv {
			g.assertExpr(est, env, fmt.Sprintf("loop%d", li.ord), fmt.Sprintf("inv%d/entry", j+1), inv, li.spec.InvSrc[j], li.minPos)
		}
	}
	// state at the header: merge of entries, then havoc what the loop changes
	st := g.mergeNoPhi(b, entries)
	pre := st.clone()
	g.fnFresh = false
	comps, dirty, all, locals := g.loopMods(li)
	if all {
		g.havocAll(st)
	} else {
		oldAlloc := g.heapGet(st, "alloc")
		keepBound := oldAlloc
		if g.fnFresh {
			// some writes go to objects this function allocated before the loop: only objects
			// that existed at function entry are known to be unchanged
			keepBound = g.heapGet(g.entry, "alloc")
		}
		for _, c := range sortedBoolKeys(comps) {
			old := g.heapGet(st, c)
			g.havocComp(st, c)
			if c != "alloc" && !dirty[c] && strings.HasPrefix(g.compSort(c), "(Array Int ") {
				// only objects allocated inside the loop are written: older objects keep their value
				nw := g.heapGet(st, c)
				g.emit(fmt.Sprintf("(assert (forall ((fr Int)) (! (=> (<= fr %s) (= (select %s fr) (select %s fr))) :pattern ((select %s fr)))))", keepBound, nw, old, nw))
			}
		}
		if comps["alloc"] {
			g.assume(st, "(>= "+g.heapGet(st, "alloc")+" "+oldAlloc+")")
		}
		for _, c := range sortedBoolKeys(comps) {
			if c != "alloc" {
				g.wfComp(st, c)
			}
		}
		// arrays of composite literals that never escape and are not stored to inside the
		// loop keep their contents whatever else the loop writes
		for _, a := range g.privateArrays(li) {
			v, ok := g.vals[a]
			if !ok {
				continue
			}
			at := a.Type().(*types.Pointer).Elem().Underlying().(*types.Array)
			c := g.m.compSliceHeap(g.m.sortOf(at.Elem()))
			if !comps[c] {
				continue
			}
			g.emit("(assert " + eq(sel(g.heapGet(st, c), v.S), sel(g.heapGet(pre, c), v.S)) + ")")
		}
	}
	// shared components were made unknown because other goroutines run inside the loop: the
	// global invariants hold at every observable point, the loop head included (they are
	// re-established after each step of this goroutine and preserved by the environment)
	if sh := g.shared(); len(sh) > 0 && !all {
		touched := false
		for c := range sh {
			if comps[c] {
				touched = true
			}
		}
		if touched {
			genv := g.env(st, g.params)
			for _, r := range g.rgClauses("ginv") {
				g.assume(st, genv.tr(r.Body).S)
			}
		}
	}
	for a := range locals {
		if _, ok := st.locals[a]; ok {
			st.locals[a] = g.declare("hl_"+a.Name(), g.m.sortOf(a.Type().(*types.Pointer).Elem()))
		}
	}
	allocT := g.heapGet(st, "alloc")
	for _, in := range b.Instrs {
		phi, ok := in.(*ssa.Phi)
		if !ok {
			break
		}
		sort := g.m.sortOf(phi.Type())
		n := g.declare("phi_"+phi.Name(), sort)
		g.vals[phi] = Val{S: n, Sort: sort, G: phi.Type()}
		g.assume(st, g.wf(n, phi.Type(), allocT))
	}
	vars := g.scopeAt(b, nil, st)
	env := g.env(st, vars)
	// a clause that cannot be evaluated here (e.g. it names a variable the code no longer
	// has) is a failed obligation by name, not a machinery error; it is then not assumed
	trOK := func(e *E, what string, j int) (string, bool) {
		var t, msg string
		func() {
			defer func() {
				if r := recover(); r != nil {
					if se, ok := r.(specErr); ok {
						msg = se.msg
						return
					}
					panic(r)
				}
			}()
			t = env.tr(e).S
		}()
		if msg != "" {
			o := &Obl{Name: fmt.Sprintf("%s/loop%d/%s%d/unevaluable", g.key, li.ord, what, j+1), Fn: g.key, Kind: fmt.Sprintf("loop%d", li.ord), Src: e.String(),
				Verdict: "unevaluable", Output: "the clause cannot be evaluated at the loop head: " + msg, gen: g}
			if li.minPos.IsValid() {
				p := g.prog.Fset.Position(li.minPos)
				o.Pos = fmt.Sprintf("%s:%d", p.Filename, p.Line)
			}
			g.obls = append(g.obls, o)
			return "", false
		}
		return t, true
	}
	for j, inv := range li.spec.Inv {
		if t, ok := trOK(inv, "inv", j); ok {
			g.assume(st, t)
		}
	}
	for j, h := range li.spec.Hints {
		t, ok := trOK(h, "hint", j)
		if !ok {
			continue
		}
		g.assert(st, fmt.Sprintf("loop%d", li.ord), "hint", t, h.String(), li.minPos)
		g.assume(st, t)
	}
	li.headSt = st.clone()
	li.headEnv = vars
	if li.spec.Dec != nil {
		li.decHead = g.define("dec", "Int", env.tr(li.spec.Dec).S)
	}
	return st
}

func (g *Gen) mergeNoPhi(b *ssa.BasicBlock, preds []*ssa.BasicBlock) *State {
	// like merge but without defining phis
	var live []*ssa.BasicBlock
	for _, p := range preds {
		if g.out[p] != nil {
			live = append(live, p)
		}
	}
	if len(live) == 0 {
		return &State{heap: map[string]string{}, locals: map[*ssa.Alloc]string{}, r: "false"}
	}
	if len(live) == 1 {
		n := g.out[live[0]].clone()
		n.r = g.define("e", "Bool", and(n.r, g.edgeCond(live[0], b)))
		return n
	}
	// multiple entries: conservative merge by reusing merge on a phi-less view
	save := b.Instrs
	var nonphi []ssa.Instruction
	for _, in := range b.Instrs {
		if _, ok := in.(*ssa.Phi); !ok {
			nonphi = append(nonphi, in)
		}
	}
	b.Instrs = nonphi
	n := g.merge(b, live)
	b.Instrs = save
	return n
}

func (g *Gen) backEdgeObls(p *ssa.BasicBlock, li *loopInfo) {
	ps := g.out[p]
	if ps == nil {
		return
	}
	est := ps.clone()
	est.r = g.define("e", "Bool", and(ps.r, g.edgeCond(p, li.head)))
	vars := g.scopeAt(li.head, p, est)
	env := g.env(est, vars)
	for j, inv := range li.spec.Inv {
		g.assertExpr(est, env, fmt.Sprintf("loop%d", li.ord), fmt.Sprintf("inv%d/preserved", j+1), inv, li.spec.InvSrc[j], li.minPos)
	}
	if li.spec.Dec != nil {
		d := env.tr(li.spec.Dec).S
		g.assert(est, fmt.Sprintf("loop%d", li.ord), "decreases", and("(>= "+li.decHead+" 0)", "(< "+d+" "+li.decHead+")"), li.spec.Dec.String(), li.minPos)
	}
	if len(li.spec.Step) > 0 {
		sv := map[string]Val{}
		for k, v := range vars {
			sv[k] = v
		}
		for k, v := range li.headEnv {
			sv["prev_"+k] = v
		}
		senv := g.env(est, sv)
		for j, e := range li.spec.Step {
			g.assertExpr(est, senv, fmt.Sprintf("loop%d", li.ord), fmt.Sprintf("step%d", j+1), e, li.spec.StepSrc[j], li.minPos)
		}
	}
}

// scopeAt computes the source-level names visible at the head of block b.
// If edge != nil, phis of b take the value flowing in along edge -> b.
func (g *Gen) scopeAt(b *ssa.BasicBlock, edge *ssa.BasicBlock, st *State) map[string]Val {
	vars := map[string]Val{}
	for k, v := range g.params {
		vars[k] = v
	}
	// hidden position of the (single) range-over-string/map iterator
	var rng *ssa.Range
	nr := 0
	for _, bb := range g.fn.Blocks {
		for _, in := range bb.Instrs {
			if r, ok := in.(*ssa.Range); ok {
				rng = r
				nr++
			}
		}
	}
	if nr == 1 {
		if rv, ok := g.vals[rng]; ok {
			vars["rangepos"] = Val{S: sel(g.heapGet(st, "It"), rv.S), Sort: "Int", G: types.Typ[types.Int]}
		}
	}
	// walk the dominator chain from the entry to b's immediate dominator
	var chain []*ssa.BasicBlock
	for d := b.Idom(); d != nil; d = d.Idom() {
		chain = append(chain, d)
	}
	if edge != nil {
		// along an edge every block dominating the edge source is visible, and the source itself
		chain = nil
		for d := edge; d != nil; d = d.Idom() {
			chain = append(chain, d)
		}
	}
	for i := len(chain) - 1; i >= 0; i-- {
		g.scopeBlock(chain[i], vars, st)
	}
	g.dropStaleNames(b, edge, chain, vars)
	for _, in := range b.Instrs {
		phi, ok := in.(*ssa.Phi)
		if !ok {
			break
		}
		if phi.Comment == "" {
			continue
		}
		name := phi.Comment
		if name == "rangeint.iter" {
			name = "rangeint"
		}
		if edge != nil {
			for i, p := range b.Preds {
				if p == edge {
					if v, ok := g.tryVal(phi.Edges[i]); ok {
						vars[name] = v
					}
				}
			}
		} else if v, ok := g.vals[phi]; ok {
			vars[name] = v
		}
		if name == "rangeindex" {
			// rangeslice: the (unnamed) slice this loop ranges over: kk = phi + 1; kk < len(slice)
			for _, r := range *phi.Referrers() {
				inc, ok := r.(*ssa.BinOp)
				if !ok || inc.Op != token.ADD || inc.X != phi {
					continue
				}
				for _, rr := range *inc.Referrers() {
					cmp, ok := rr.(*ssa.BinOp)
					if !ok || cmp.Op != token.LSS || cmp.X != inc {
						continue
					}
					if c, ok := cmp.Y.(*ssa.Call); ok {
						if bi, ok := c.Call.Value.(*ssa.Builtin); ok && bi.Name() == "len" {
							if v, ok := g.tryVal(c.Call.Args[0]); ok {
								vars["rangeslice"] = v
							}
						}
					}
				}
			}
		}
	}
	return vars
}

// dropStaleNames: a source variable that is dead at a loop head gets no phi there, so the
// dominating definition found by the chain walk is the value from BEFORE the loop even though
// the loop assigns the variable.  A clause naming it would be assumed about the stale value at
// the head and asserted about the fresh one on the back edge (unsound).  Such a name is removed
// from the scope (the clause then fails as unevaluable) at every point inside the loop whose
// visible definition lies outside the loop while the loop holds a different definition.
func (g *Gen) dropStaleNames(b, edge *ssa.BasicBlock, chain []*ssa.BasicBlock, vars map[string]Val) {
	at := b
	if edge != nil {
		at = edge
	}
	type def struct {
		v  ssa.Value
		bb *ssa.BasicBlock
	}
	last := map[string]def{}
	for i := len(chain) - 1; i >= 0; i-- {
		for _, in := range chain[i].Instrs {
			switch x := in.(type) {
			case *ssa.Phi:
				if x.Comment != "" {
					last[x.Comment] = def{x, chain[i]}
				}
			case *ssa.DebugRef:
				if x.IsAddr {
					continue
				}
				if obj, ok := x.Object().(*types.Var); ok && obj != nil && !obj.IsField() {
					last[obj.Name()] = def{x.X, chain[i]}
				}
			}
		}
	}
	for _, li := range g.loops {
		if !li.blocks[at] {
			continue
		}
		for bb := range li.blocks {
			for _, in := range bb.Instrs {
				x, ok := in.(*ssa.DebugRef)
				if !ok || x.IsAddr {
					continue
				}
				obj, ok := x.Object().(*types.Var)
				if !ok || obj == nil || obj.IsField() {
					continue
				}
				name := obj.Name()
				d, seen := last[name]
				cur, bound := vars[name]
				if !seen || !bound || cur.Lazy || cur.Bltn == "localvar" || li.blocks[d.bb] || d.v == x.X {
					continue
				}
				delete(vars, name)
				g.staleDropped = append(g.staleDropped, fmt.Sprintf("%s (loop %d)", name, li.ord))
			}
		}
	}
}

// lazyCell: a pointer to a variable cell, named in contracts by the variable it holds.
func (g *Gen) lazyCell(ptr Val) Val {
	pt, ok := ptr.G.Underlying().(*types.Pointer)
	if !ok || ptr.Loc != nil {
		return ptr
	}
	et := pt.Elem()
	if _, isStruct := et.Underlying().(*types.Struct); isStruct {
		// the address is what contracts need (addrOf); the value itself is not readable as a cell
		return Val{Loc: &Loc{Kind: "structptr", Base: ptr.S, T: et}, Sort: g.m.sortOf(et), G: et, Lazy: true}
	}
	if _, isArr := et.Underlying().(*types.Array); isArr {
		return ptr
	}
	s := g.m.sortOf(et)
	return Val{Loc: &Loc{Kind: "cell", Base: ptr.S, Comp: g.m.compCell(s), T: et}, Sort: s, G: et, Lazy: true}
}

func (g *Gen) tryVal(v ssa.Value) (r Val, ok bool) {
	defer func() {
		if recover() != nil {
			ok = false
		}
	}()
	return g.val(v), true
}

func (g *Gen) scopeBlock(b *ssa.BasicBlock, vars map[string]Val, st *State) {
	for _, in := range b.Instrs {
		switch x := in.(type) {
		case *ssa.Phi:
			if x.Comment != "" {
				if v, ok := g.vals[x]; ok {
					vars[x.Comment] = v
				}
			}
		case *ssa.DebugRef:
			if x.IsAddr {
				continue
			}
			if obj, ok := x.Object().(*types.Var); ok && obj != nil && !obj.IsField() {
				if cur, bound := vars[obj.Name()]; bound && (cur.Lazy || cur.Bltn == "localvar") {
					continue // an address-taken variable is read from its cell, not from a stale load
				}
				if v, ok := g.tryVal(x.X); ok && v.Loc == nil && v.S != "" {
					vars[obj.Name()] = v
				}
			}
		case *ssa.Alloc:
			if x.Comment != "" && x.Heap && !isArrayAlloc(x) {
				if pv, ok := g.vals[x]; ok {
					if lv := g.lazyCell(pv); lv.Lazy {
						vars[x.Comment] = lv
					}
				}
			}
			if x.Comment != "" && !x.Heap && !isArrayAlloc(x) {
				if t, ok := st.locals[x]; ok {
					et := x.Type().(*types.Pointer).Elem()
					vars[x.Comment] = Val{S: t, Sort: g.m.sortOf(et), G: et, Bltn: "localvar"}
				}
			}
		}
	}
}

// ---- blocks and instructions ----

func (g *Gen) block(b *ssa.BasicBlock, st *State) {
	g.curSt = st
	for _, in := range b.Instrs {
		g.curInstr = in
		g.instr(in, st)
	}
}

func (g *Gen) scopeBlockUpTo(b *ssa.BasicBlock, upto ssa.Instruction, vars map[string]Val, st *State) {
	save := b.Instrs
	for i, in := range b.Instrs {
		if in == upto {
			b.Instrs = b.Instrs[:i]
			break
		}
	}
	g.scopeBlock(b, vars, st)
	b.Instrs = save
}

func (g *Gen) instr(in ssa.Instruction, st *State) {
	m := g.m
	switch x := in.(type) {
	case *ssa.Phi, *ssa.DebugRef, *ssa.Jump, *ssa.If:
		return
	case *ssa.UnOp:
		switch x.Op {
		case token.MUL:
			p := g.val(x.X)
			if gl, ok := x.X.(*ssa.Global); ok {
				if v, ok := g.constGlobal(gl, st); ok {
					g.vals[x] = v
					return
				}
			}
			if p.Loc != nil && g.shared()[p.Loc.Comp] {
				g.interfere(st)
			}
			t := g.load(st, p)
			g.setVal(x, t, x.Type())
			g.assume(st, g.wf(g.vals[x].S, x.Type(), g.heapGet(st, "alloc")))
		case token.NOT:
			g.setVal(x, not(g.val(x.X).S), x.Type())
		case token.SUB:
			g.setVal(x, "(- "+g.val(x.X).S+")", x.Type())
		case token.XOR:
			g.setVal(x, "(- (- "+g.val(x.X).S+") 1)", x.Type())
		case token.ARROW:
			g.setFresh(x, st)
			// ghost: the channels this goroutine has received from (history; declared in specs as gRecv)
			if _, ok := g.m.comps["gRecv"]; ok {
				g.heapSet(st, "gRecv", "(store "+g.heapGet(st, "gRecv")+" "+g.val(x.X).S+" true)")
			}
		default:
			g.unsup("unary %s", x.Op)
		}
	case *ssa.BinOp:
		g.binop(x, st)
	case *ssa.Call:
		g.call(x, x.Common(), st)
	case *ssa.Return:
		g.ret(x, st)
	case *ssa.Extract:
		t := g.val(x.Tuple)
		if x.Index >= len(t.Tup) {
			g.unsup("extract from non-tuple")
		}
		g.vals[x] = t.Tup[x.Index]
	case *ssa.Alloc:
		g.alloc(x, st)
	case *ssa.Store:
		addr := g.val(x.Addr)
		if addr.Loc != nil && g.shared()[addr.Loc.Comp] {
			g.interfere(st)
			prev := st.clone()
			g.storeTo(st, addr, g.val(x.Val).S)
			g.checkGuar(prev, st, fmt.Sprintf("store#%d", g.bump("sharedstore")), x.Pos())
			return
		}
		g.storeTo(st, addr, g.val(x.Val).S)
	case *ssa.FieldAddr:
		p := g.val(x.X)
		pt := x.X.Type().Underlying().(*types.Pointer).Elem()
		stt := pt.Underlying().(*types.Struct)
		if p.Loc != nil {
			nl := *p.Loc
			nl.Path = append(append([]pathStep(nil), p.Loc.Path...), pathStep{Field: x.Field, St: stt, T: pt})
			nl.T = stt.Field(x.Field).Type()
			g.vals[x] = Val{Loc: &nl, G: x.Type()}
			return
		}
		g.assert(st, "safe", "nilderef", not(eq(p.S, "0")), "field address of nil pointer", x.Pos())
		ss := m.sortOf(pt)
		ft := stt.Field(x.Field).Type()
		g.vals[x] = Val{Loc: &Loc{Kind: "field", Base: p.S, Comp: m.compField(ss, fieldName(stt, x.Field), m.sortOf(ft)), T: ft}, G: x.Type()}
	case *ssa.Field:
		sv := g.val(x.X)
		stt := x.X.Type().Underlying().(*types.Struct)
		g.setVal(x, structGet(m.sortOf(x.X.Type()), fieldName(stt, x.Field), sv.S), x.Type())
	case *ssa.IndexAddr:
		xv := g.val(x.X)
		iv := g.val(x.Index)
		switch u := x.X.Type().Underlying().(type) {
		case *types.Slice:
			g.assert(st, "safe", "index", and("(<= 0 "+iv.S+")", "(< "+iv.S+" "+slLen(xv.S)+")"), "index in range", x.Pos())
			es := m.sortOf(u.Elem())
			g.vals[x] = Val{Loc: &Loc{Kind: "elem", Base: slRef(xv.S), Comp: m.compSliceHeap(es), Idx: add(slOff(xv.S), iv.S), T: u.Elem()}, G: x.Type()}
		case *types.Pointer:
			at := u.Elem().Underlying().(*types.Array)
			g.assert(st, "safe", "index", and("(<= 0 "+iv.S+")", "(< "+iv.S+" "+fmt.Sprint(at.Len())+")"), "array index in range", x.Pos())
			es := m.sortOf(at.Elem())
			if xv.Loc != nil {
				nl := *xv.Loc
				nl.Path = append(append([]pathStep(nil), xv.Loc.Path...), pathStep{Field: -1, Idx: iv.S, ESort: es})
				nl.T = at.Elem()
				g.vals[x] = Val{Loc: &nl, G: x.Type()}
				return
			}
			g.vals[x] = Val{Loc: &Loc{Kind: "elem", Base: xv.S, Comp: m.compSliceHeap(es), Idx: iv.S, T: at.Elem()}, G: x.Type()}
		default:
			g.unsup("IndexAddr on %s", x.X.Type())
		}
	case *ssa.Index:
		xv := g.val(x.X)
		iv := g.val(x.Index)
		switch u := x.X.Type().Underlying().(type) {
		case *types.Basic: // string
			g.assert(st, "safe", "index", and("(<= 0 "+iv.S+")", "(< "+iv.S+" "+sLen(xv.S)+")"), "string index in range", x.Pos())
			g.setVal(x, sel(sArr(xv.S), add(sOff(xv.S), iv.S)), x.Type())
			g.assume(st, g.wf(g.vals[x].S, x.Type(), ""))
		case *types.Array:
			g.assert(st, "safe", "index", and("(<= 0 "+iv.S+")", "(< "+iv.S+" "+fmt.Sprint(u.Len())+")"), "array index in range", x.Pos())
			g.setVal(x, sel(xv.S, iv.S), x.Type())
		default:
			g.unsup("Index on %s", x.X.Type())
		}
	case *ssa.Slice:
		g.slice(x, st)
	case *ssa.MakeSlice:
		n := g.val(x.Len).S
		c := g.val(x.Cap).S
		g.assert(st, "safe", "makeslice", and("(<= 0 "+n+")", "(<= "+n+" "+c+")"), "make: len in range", x.Pos())
		es := m.sortOf(x.Type().Underlying().(*types.Slice).Elem())
		ref := g.newRef(st)
		comp := m.compSliceHeap(es)
		zero := "((as const (Array Int " + es + ")) " + litZero(m.zeroOf(x.Type().Underlying().(*types.Slice).Elem())) + ")"
		g.heapSet(st, comp, store(g.heapGet(st, comp), ref, zero))
		g.setVal(x, mkSl(ref, "0", n, c), x.Type())
	case *ssa.Convert:
		g.convert(x, st)
	case *ssa.ChangeType:
		v := g.val(x.X)
		v.G = x.Type()
		g.vals[x] = v
	case *ssa.ChangeInterface:
		v := g.val(x.X)
		v.G = x.Type()
		g.vals[x] = v
	case *ssa.MakeInterface:
		g.makeInterface(x, st)
	case *ssa.TypeAssert:
		g.typeAssert(x, st)
	case *ssa.Lookup:
		g.lookup(x, st)
	case *ssa.MapUpdate:
		g.mapUpdate(x, st)
	case *ssa.MakeMap:
		mt := x.Type().Underlying().(*types.Map)
		ks, vs := m.sortOf(mt.Key()), m.sortOf(mt.Elem())
		if ks == "Str" {
			ks = "Int"
		}
		md, mv := m.compMap(ks, vs)
		ref := g.newRef(st)
		g.heapSet(st, md, store(g.heapGet(st, md), ref, "((as const (Array "+ks+" Bool)) false)"))
		g.heapSet(st, mv, store(g.heapGet(st, mv), ref, "((as const (Array "+ks+" "+vs+")) "+litZero(m.zeroOf(mt.Elem()))+")"))
		g.setVal(x, ref, x.Type())
	case *ssa.Range:
		g.rangeInit(x, st)
	case *ssa.Next:
		g.next(x, st)
	case *ssa.MakeClosure:
		var clo []Val
		for _, b := range x.Bindings {
			clo = append(clo, g.val(b))
		}
		ref := g.newRef(st)
		g.vals[x] = Val{S: ref, Sort: "Int", G: x.Type(), Fn: x.Fn.(*ssa.Function), Clo: clo}
		// closure facts readable from contracts: isClosure(v, "name"), capturedInt(v, k)
		g.assume(st, eq("(clofn "+ref+")", fmt.Sprint(fnID(x.Fn.Name()))))
		for i, c := range clo {
			if c.Sort == "Int" {
				g.assume(st, eq(fmt.Sprintf("(clovar %s %d)", ref, i), c.S))
			}
		}
	case *ssa.Defer:
		var args []Val
		for _, a := range x.Call.Args {
			args = append(args, g.val(a))
		}
		var fv Val
		if !x.Call.IsInvoke() {
			fv = g.val(x.Call.Value)
		} else {
			fv = g.val(x.Call.Value)
		}
		st.defers = append(st.defers, deferEntry{call: x, cond: st.r, args: args, fn: fv})
	case *ssa.RunDefers:
		g.runDefers(st)
	case *ssa.Panic:
		g.panicInstr(x, st)
	case *ssa.Go:
		g.goInstr(x, st)
	case *ssa.MakeChan:
		g.setVal(x, g.newRef(st), x.Type())
	case *ssa.Send:
		// a send may block and lets other goroutines run
		if len(g.shared()) > 0 {
			g.interfere(st)
		}
	case *ssa.Select:
		g.unsup("channel operation %T", in)
	default:
		g.unsup("instruction %T", in)
	}
}

func (g *Gen) setFresh(v ssa.Value, st *State) {
	sort := g.m.sortOf(v.Type())
	n := g.declare("k_"+v.Name(), sort)
	g.vals[v] = Val{S: n, Sort: sort, G: v.Type()}
	g.assume(st, g.wf(n, v.Type(), g.heapGet(st, "alloc")))
}

func (g *Gen) alloc(x *ssa.Alloc, st *State) {
	m := g.m
	et := x.Type().(*types.Pointer).Elem()
	if !x.Heap && !isArrayAlloc(x) {
		st.locals[x] = m.zeroOf(et)
		g.vals[x] = Val{Loc: &Loc{Kind: "local", Alloc: x, T: et}, G: x.Type()}
		return
	}
	ref := g.newRef(st)
	switch u := et.Underlying().(type) {
	case *types.Struct:
		ss := m.sortOf(et)
		if m.opaque[ss] {
			c := m.compCell(ss)
			g.heapSet(st, c, store(g.heapGet(st, c), ref, m.zeroOf(et)))
			break
		}
		for i := 0; i < u.NumFields(); i++ {
			c := m.compField(ss, fieldName(u, i), m.sortOf(u.Field(i).Type()))
			g.heapSet(st, c, store(g.heapGet(st, c), ref, m.zeroOf(u.Field(i).Type())))
		}
	case *types.Array:
		es := m.sortOf(u.Elem())
		c := m.compSliceHeap(es)
		g.heapSet(st, c, store(g.heapGet(st, c), ref, "((as const (Array Int "+es+")) "+litZero(m.zeroOf(u.Elem()))+")"))
	default:
		c := m.compCell(m.sortOf(et))
		g.heapSet(st, c, store(g.heapGet(st, c), ref, m.zeroOf(et)))
	}
	g.vals[x] = Val{S: ref, Sort: "Int", G: x.Type()}
}

func (g *Gen) binop(x *ssa.BinOp, st *State) {
	a, b := g.val(x.X), g.val(x.Y)
	env := g.env(st, nil)
	xt := x.X.Type().Underlying()
	switch x.Op {
	case token.EQL, token.NEQ:
		var r string
		switch u := xt.(type) {
		case *types.Basic:
			if u.Info()&types.IsString != 0 {
				if c, ok := x.Y.(*ssa.Const); ok && c.Value != nil {
					b.Bltn = "lit:" + constString(c)
				}
				if c, ok := x.X.(*ssa.Const); ok && c.Value != nil {
					a.Bltn = "lit:" + constString(c)
				}
				r = env.strEq(a, b)
			} else {
				r = eq(a.S, b.S)
			}
		case *types.Slice:
			if isNilConst(x.Y) {
				r = eq(slRef(a.S), "0")
			} else {
				r = eq(slRef(b.S), "0")
			}
		case *types.Struct, *types.Array:
			r = eq(a.S, b.S)
		default:
			r = eq(a.S, b.S)
		}
		if x.Op == token.NEQ {
			r = not(r)
		}
		g.setVal(x, r, x.Type())
	case token.LSS, token.LEQ, token.GTR, token.GEQ:
		if bt, ok := xt.(*types.Basic); ok && bt.Info()&types.IsString != 0 {
			g.setFresh(x, st)
			return
		}
		op := map[token.Token]string{token.LSS: "<", token.LEQ: "<=", token.GTR: ">", token.GEQ: ">="}[x.Op]
		g.setVal(x, "("+op+" "+a.S+" "+b.S+")", x.Type())
	case token.ADD:
		if bt, ok := xt.(*types.Basic); ok && bt.Info()&types.IsString != 0 {
			g.concat(x, a, b, st)
			return
		}
		g.setVal(x, g.wrap(add(a.S, b.S), x.Type()), x.Type())
	case token.SUB:
		g.setVal(x, g.wrap(sub(a.S, b.S), x.Type()), x.Type())
	case token.MUL:
		g.setVal(x, g.wrap("(* "+a.S+" "+b.S+")", x.Type()), x.Type())
	case token.QUO:
		g.assert(st, "safe", "divzero", not(eq(b.S, "0")), "division by zero", x.Pos())
		g.setVal(x, "(godiv "+a.S+" "+b.S+")", x.Type())
	case token.REM:
		g.assert(st, "safe", "divzero", not(eq(b.S, "0")), "division by zero", x.Pos())
		g.setVal(x, "(gomod "+a.S+" "+b.S+")", x.Type())
	case token.AND, token.OR, token.XOR, token.AND_NOT, token.SHL, token.SHR:
		if a.Sort == "Bool" {
			switch x.Op {
			case token.AND:
				g.setVal(x, and(a.S, b.S), x.Type())
			case token.OR:
				g.setVal(x, or(a.S, b.S), x.Type())
			default:
				g.setVal(x, "(xor "+a.S+" "+b.S+")", x.Type())
			}
			return
		}
		g.setVal(x, bitop(x.Op.String(), a.S, b.S), x.Type())
	default:
		g.unsup("binary operator %s", x.Op)
	}
}

// wrap: unsigned types wrap around; signed are mathematical (standing assumption).
func (g *Gen) wrap(t string, typ types.Type) string {
	if b, ok := typ.Underlying().(*types.Basic); ok {
		switch b.Kind() {
		case types.Uint8:
			return "(mod " + t + " 256)"
		case types.Uint16:
			return "(mod " + t + " 65536)"
		case types.Uint32:
			return "(mod " + t + " 4294967296)"
		case types.Uint64, types.Uint, types.Uintptr:
			return "(mod " + t + " 18446744073709551616)"
		}
	}
	return t
}

func constString(c *ssa.Const) string {
	s := c.Value.ExactString()
	if len(s) >= 2 && s[0] == '"' {
		if u, err := strconvUnquote(s); err == nil {
			return u
		}
	}
	return s
}

func isNilConst(v ssa.Value) bool {
	c, ok := v.(*ssa.Const)
	return ok && c.Value == nil
}

func (g *Gen) concat(x ssa.Value, a, b Val, st *State) {
	// fresh string whose content is a followed by b
	arr := g.declare("cat", "(Array Int Int)")
	la, lb := sLen(a.S), sLen(b.S)
	g.emit(fmt.Sprintf("(assert (forall ((q Int)) (! (=> (and (<= 0 q) (< q %s)) (= (select %s q) (select %s (+ %s q)))) :pattern ((select %s q)))))", la, arr, sArr(a.S), sOff(a.S), arr))
	g.emit(fmt.Sprintf("(assert (forall ((q Int)) (! (=> (and (<= %s q) (< q (+ %s %s))) (= (select %s q) (select %s (+ %s (- q %s))))) :pattern ((select %s q)))))", la, la, lb, arr, sArr(b.S), sOff(b.S), la, arr))
	g.setVal(x, mkStr(arr, "0", add(la, lb)), x.Type())
}

func (g *Gen) slice(x *ssa.Slice, st *State) {
	xv := g.val(x.X)
	lo := "0"
	if x.Low != nil {
		lo = g.val(x.Low).S
	}
	switch u := x.X.Type().Underlying().(type) {
	case *types.Slice:
		hi := slLen(xv.S)
		if x.High != nil {
			hi = g.val(x.High).S
		}
		if x.Max != nil {
			mx := g.val(x.Max).S
			g.assert(st, "safe", "slice", and("(<= 0 "+lo+")", "(<= "+lo+" "+hi+")", "(<= "+hi+" "+mx+")", "(<= "+mx+" "+slCap(xv.S)+")"), "3-index slice bounds in range", x.Pos())
			g.setVal(x, mkSl(slRef(xv.S), add(slOff(xv.S), lo), sub(hi, lo), sub(mx, lo)), x.Type())
			break
		}
		g.assert(st, "safe", "slice", and("(<= 0 "+lo+")", "(<= "+lo+" "+hi+")", "(<= "+hi+" "+slCap(xv.S)+")"), "slice bounds in range", x.Pos())
		g.setVal(x, mkSl(slRef(xv.S), add(slOff(xv.S), lo), sub(hi, lo), sub(slCap(xv.S), lo)), x.Type())
	case *types.Basic:
		hi := sLen(xv.S)
		if x.High != nil {
			hi = g.val(x.High).S
		}
		g.assert(st, "safe", "slice", and("(<= 0 "+lo+")", "(<= "+lo+" "+hi+")", "(<= "+hi+" "+sLen(xv.S)+")"), "string slice bounds in range", x.Pos())
		g.setVal(x, mkStrLH(sArr(xv.S), add(sOff(xv.S), lo), add(sOff(xv.S), hi)), x.Type())
	case *types.Pointer:
		at := u.Elem().Underlying().(*types.Array)
		n := fmt.Sprint(at.Len())
		hi := n
		if x.High != nil {
			hi = g.val(x.High).S
		}
		if xv.Loc != nil {
			g.unsup("slice of array inside a local aggregate")
		}
		g.assert(st, "safe", "slice", and("(<= 0 "+lo+")", "(<= "+lo+" "+hi+")", "(<= "+hi+" "+n+")"), "array slice bounds in range", x.Pos())
		g.setVal(x, mkSl(xv.S, lo, sub(hi, lo), sub(n, lo)), x.Type())
	default:
		g.unsup("slice of %s", x.X.Type())
	}
}

func (g *Gen) convert(x *ssa.Convert, st *State) {
	v := g.val(x.X)
	from, to := x.X.Type().Underlying(), x.Type().Underlying()
	switch t := to.(type) {
	case *types.Basic:
		if t.Info()&types.IsString != 0 {
			switch f := from.(type) {
			case *types.Slice: // string([]byte): snapshot of the current contents
				h := g.heapGet(st, g.m.compSliceHeap("Int"))
				g.setVal(x, mkStr(sel(h, slRef(v.S)), slOff(v.S), slLen(v.S)), x.Type())
				return
			case *types.Basic:
				if f.Info()&types.IsInteger != 0 { // string(rune)
					g.setFresh(x, st)
					return
				}
			}
		}
		if t.Info()&types.IsInteger != 0 {
			if fb, ok := from.(*types.Basic); ok && fb.Info()&types.IsInteger != 0 {
				g.setVal(x, g.narrow(v.S, fb, t), x.Type())
				return
			}
		}
		if t.Info()&types.IsFloat != 0 || t.Kind() == types.UnsafePointer {
			g.setFresh(x, st)
			return
		}
	case *types.Slice:
		if fb, ok := from.(*types.Basic); ok && fb.Info()&types.IsString != 0 {
			// []byte(string): fresh array holding the string's bytes, same absolute window
			ref := g.newRef(st)
			comp := g.m.compSliceHeap("Int")
			g.heapSet(st, comp, store(g.heapGet(st, comp), ref, sArr(v.S)))
			g.setVal(x, mkSl(ref, sOff(v.S), sLen(v.S), sLen(v.S)), x.Type())
			return
		}
	}
	g.unsup("conversion %s -> %s", x.X.Type(), x.Type())
}

func (g *Gen) narrow(v string, from, to *types.Basic) string {
	size := func(b *types.Basic) (bits int, signed bool) {
		switch b.Kind() {
		case types.Int8:
			return 8, true
		case types.Int16:
			return 16, true
		case types.Int32:
			return 32, true
		case types.Int64, types.Int, types.UntypedInt, types.UntypedRune:
			return 64, true
		case types.Uint8:
			return 8, false
		case types.Uint16:
			return 16, false
		case types.Uint32:
			return 32, false
		}
		return 64, false
	}
	fb, fs := size(from)
	tb, ts := size(to)
	if tb > fb || (tb == fb && fs == ts) || (tb > fb && !fs) {
		if fs && !ts {
			return v // negative -> unsigned treated as mathematical (assumption)
		}
		return v
	}
	if !ts && tb < 64 {
		return fmt.Sprintf("(mod %s %d)", v, uint64(1)<<uint(tb))
	}
	return v
}

func strconvUnquote(s string) (string, error) {
	return unquoteGo(s)
}

// privateArrays: array-typed allocations of this function (composite literals) whose address
// is used only for element stores outside the loop, element loads, and slicing that is itself
// used only for element loads and len/cap.
func (g *Gen) privateArrays(li *loopInfo) []*ssa.Alloc {
	var out []*ssa.Alloc
	loadsOnly := func(v ssa.Value, allowStoreOutside bool) bool {
		for _, r := range *v.Referrers() {
			switch x := r.(type) {
			case *ssa.DebugRef:
			case *ssa.IndexAddr:
				if x.X != v {
					return false
				}
				for _, rr := range *x.Referrers() {
					switch y := rr.(type) {
					case *ssa.UnOp:
					case *ssa.DebugRef:
					case *ssa.Store:
						if y.Addr != x || !allowStoreOutside || li.blocks[y.Block()] {
							return false
						}
					default:
						return false
					}
				}
			case *ssa.Call:
				b, ok := x.Call.Value.(*ssa.Builtin)
				if !ok || (b.Name() != "len" && b.Name() != "cap") {
					return false
				}
			case *ssa.Slice:
				if !allowStoreOutside || x.X != v {
					return false // only the allocation itself may be sliced (checked by the caller)
				}
			default:
				return false
			}
		}
		return true
	}
	for _, b := range g.fn.Blocks {
		if li.blocks[b] {
			continue
		}
		for _, in := range b.Instrs {
			a, ok := in.(*ssa.Alloc)
			if !ok {
				continue
			}
			if _, isArr := a.Type().(*types.Pointer).Elem().Underlying().(*types.Array); !isArr {
				continue
			}
			good := true
			for _, r := range *a.Referrers() {
				switch x := r.(type) {
				case *ssa.DebugRef:
				case *ssa.IndexAddr:
				case *ssa.Slice:
					if x.X != a || !loadsOnly(x, false) {
						good = false
					}
				default:
					good = false
				}
			}
			if good && loadsOnly(a, true) {
				out = append(out, a)
			}
		}
	}
	return out
}
