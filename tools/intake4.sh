#!/bin/bash
# intake4.sh <PROPERTY> [worktree]: intake of a blind-round delivery (<worktree>/_out/patchN.diff, demoN_test.go)
p=$1; wt=${2:-/tmp/seed4-$p}
for n in 1 2 3 4; do
  [ -f $wt/_out/patch$n.diff ] || continue
  m=1; while [ -d /verif/seeded/$p-$m ]; do m=$((m+1)); done
  d=/verif/seeded/$p-$m; mkdir -p $d
  cp $wt/_out/patch$n.diff $d/patch.diff; cp $wt/_out/demo${n}_test.go $d/demo_test.go
  file=$(grep -m1 '^+++ b/' $d/patch.diff | sed 's|^+++ b/||'); pkg=$(dirname $file)
  # the demo goes where its package clause says it compiles: try the changed file's directory
  echo "== confirm $p-$m (patch$n, $file)"
  /verif/tools/confirmseed.sh $wt $pkg $d/patch.diff $d/demo_test.go Demo ./$pkg 2>&1 | tail -3
  echo "== check $p-$m"
  /verif/tools/tryseed.sh $p $d/patch.diff | grep -v "^VIOLATION\|^  replay\|^    " | cut -c1-230
  git -C /repo status --short | grep -v "^??" | head -3
done
