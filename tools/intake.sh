#!/bin/sh
# intake.sh <PROPERTY> <worktree> <pkgdir> <n> <demoRegexp> [test packages...]
# confirms seeded change n delivered in <worktree>/out, stores it under /verif/seeded/<PROPERTY>-<n>, runs the check against it
p=$1; wt=$2; pkg=$3; n=$4; re=$5; shift 5
d=/verif/seeded/$p-$n
mkdir -p $d
cp $wt/out/patch$n.diff $d/patch.diff
cp $wt/out/demo${n}_test.go $d/demo_test.go
echo "== confirm $p-$n"
/verif/tools/confirmseed.sh $wt $pkg $d/patch.diff $d/demo_test.go "$re" "$@" 2>&1 | tail -4
echo "== check $p-$n"
/verif/tools/tryseed.sh $p $d/patch.diff
git -C /repo status --short | grep -v "^??" | head -3
