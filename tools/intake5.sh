#!/bin/bash
# intake5.sh <PROPERTY> [worktree]: intake of a round-5 delivery (<worktree>/_out/<n>/patch.diff, demo_test.go, note.txt)
p=$1; wt=${2:-/tmp/seed8-$p}
for n in 1 2 3; do
  [ -f $wt/_out/$n/patch.diff ] || continue
  m=1; while [ -d /verif/seeded/$p-$m ]; do m=$((m+1)); done
  d=/verif/seeded/$p-$m; mkdir -p $d
  cp $wt/_out/$n/patch.diff $d/patch.diff; cp $wt/_out/$n/demo_test.go $d/demo_test.go; cp $wt/_out/$n/note.txt $d/note.txt 2>/dev/null
  file=$(grep -m1 '^+++ b/' $d/patch.diff | sed 's|^+++ b/||'); pkg=$(dirname $file)
  place=$(head -3 $d/demo_test.go | grep -m1 -o 'place in: *[^ ]*' | sed 's/place in: *//')
  [ -n "$place" ] && pkg=${place%/}; pkg=${pkg#./}
  re=$(grep -o '^func Test[A-Za-z0-9_]*' $d/demo_test.go | grep -v TestMain | sed 's/func //' | tr '\n' '|' | sed 's/|$//')
  echo "== confirm $p-$m (out/$n, $file, demo in $pkg)"
  /verif/tools/confirmseed.sh $wt $pkg $d/patch.diff $d/demo_test.go "^($re)\$" ./$pkg 2>&1 | tail -3
  echo "== check $p-$m"
  /verif/tools/tryseed.sh $p $d/patch.diff | grep -v "^VIOLATION\|^  replay\|^    " | cut -c1-230
  git -C /repo status --short | grep -v "^??" | head -3
done
