#!/bin/bash
# slowobls.sh [threshold seconds]: lists obligations slower than the threshold on the current tree
th=${1:-1.0}
cd /verif
grep -h "^//@ property" /repo/*/zz_contracts_verif.go /repo/*/*/*/zz_contracts_verif.go 2>/dev/null | while read -r line; do
  id=$(echo "$line" | sed 's/^\/\/@ property \([A-Z0-9]*\):.*/\1/')
  f=$(grep -l "^//@ property $id:" /repo/*/zz_contracts_verif.go /repo/*/*/*/zz_contracts_verif.go 2>/dev/null | head -1)
  dir=$(dirname "$f" | sed 's|/repo/||')
  keys=$(echo "$line" | sed 's/^[^:]*: *//' | tr ',' '\n' | sed 's/^ *//; s/ *$//' | grep -v "^lemma:" | while read -r k; do case "$k" in */*) echo "$k";; *) echo "$dir/$k";; esac; done)
  IFS=$'\n'
  bin/govc -v fn $keys 2>&1 | awk -v c=$id -v th=$th '($1=="ok"||$1=="FAIL") { for(i=1;i<=NF;i++) if ($i ~ /^[0-9.]+s$/) { t=$i; sub("s","",t); if (t+0 > th) print c, $1, $2, $i } }'
  unset IFS
done
