#!/bin/bash
# trybenign.sh <PROPERTY> [worktree]: run the property's quick check against each behaviour-preserving
# refactoring delivered in <worktree>/_out/<n>/patch.diff (applied to /repo, undone afterwards)
p=$1; wt=${2:-/tmp/ben-$p}
for n in 1 2 3 4; do
  f=$wt/_out/$n/patch.diff
  [ -f $f ] || continue
  cd /repo && git apply $f || { echo "$p/$n: patch does not apply"; continue; }
  out=$(cd /verif && ./check $p quick 2>&1)
  git -C /repo apply -R $f
  echo "== $p/$n: $(echo "$out" | tail -1)"
  echo "$out" | grep "^failed obligation\|^bounded stand-in" | cut -c1-200 | head -8
done
git -C /repo status --short | grep -v '^??'
