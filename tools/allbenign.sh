#!/bin/bash
# allbenign.sh: the behaviour-preserving refactorings under /verif/benign/<ID>-<n>/patch.diff (delivered by
# sub-agents that saw only the property text; each compiles and passes the existing tests) are applied to
# /repo one at a time and the property's quick check is run.  A check that reports a violation on one of
# them raises a false alarm.  benign/STILL_ALARMING.txt lists the ones known to do so (DESIGN.md 10.7 says
# why); anything else that alarms is a regression of the machinery: exit 1.
cd /verif
bad=0
for d in benign/*/; do
  s=$(basename $d); p=${s%-*}
  cd /repo && git apply /verif/$d/patch.diff 2>/dev/null || { echo "BENIGN-ERROR $s: patch does not apply"; bad=1; cd /verif; continue; }
  out=$(cd /verif && ./check $p quick 2>&1 | tail -1)
  git -C /repo apply -R /verif/$d/patch.diff
  cd /verif
  case "$out" in
    *" 0 violations"*) if grep -qx "$s" benign/STILL_ALARMING.txt; then echo "benign ok   $s (was listed as alarming: remove it from STILL_ALARMING.txt)"; else echo "benign ok   $s"; fi;;
    *) if grep -qx "$s" benign/STILL_ALARMING.txt; then echo "benign known-alarm $s: $out"; else echo "BENIGN-ALARM $s: $out"; bad=1; fi;;
  esac
done
git -C /repo status --short | grep -v '^??'
exit $bad
