#!/bin/bash
# trybenign1.sh <PROPERTY> <n>: one refactoring
p=$1; n=$2; f=/tmp/ben-$p/_out/$n/patch.diff
cd /repo && git apply $f || { echo "$p/$n: patch does not apply"; exit; }
out=$(cd /verif && ./check $p quick 2>&1)
git -C /repo apply -R $f
echo "== $p/$n: $(echo "$out" | tail -1)"
echo "$out" | grep "^failed obligation\|^bounded stand-in\|^warning" | cut -c1-${3:-200} | head -${4:-6}
