#!/bin/sh
# tryseed.sh <PROPERTY> <patch.diff>: apply a seeded change to /repo, run the property's quick check, undo.
p=$1; patch=$2
cd /repo || exit 2
git apply "$patch" || { echo "patch does not apply"; exit 2; }
(cd /verif && ./check "$p" quick 2>&1 | grep -v "^  replayed" | cut -c1-220 | tail -12)
git -C /repo apply -R "$patch"
