#!/bin/bash
# allbenign_par.sh [jobs]: allbenign.sh on scratch copies, several at a time (does not touch /repo)
export GOFLAGS=-mod=mod GOPROXY=off GOSUMDB=off GOTOOLCHAIN=local
cd /verif
ls benign | grep -v STILL | xargs -P ${1:-6} -n 1 tools/benign1.sh | sort > /tmp/allbenign.$$.out
cat /tmp/allbenign.$$.out; n=$(grep -c "^BENIGN-ALARM\|^BENIGN-ERROR" /tmp/allbenign.$$.out); rm -f /tmp/allbenign.$$.out
[ "$n" = 0 ]
