#!/bin/bash
# enginetest.sh: tests the VC generator itself on small functions with known verdicts
# (/verif/enginetest): okXxx must verify completely, badXxx must leave an obligation open.
set -u
work=$(mktemp -d /tmp/verif-engine.XXXXXX)
trap 'rm -rf "$work"' EXIT
rsync -a --exclude .git /repo/ "$work/repo/"
mkdir -p "$work/repo/zzengine"
cp /verif/enginetest/cases.go /verif/enginetest/zz_contracts_verif.go "$work/repo/zzengine/"
cd /verif
fns=$(grep -o "^func \(ok\|bad\)[A-Za-z0-9]*" enginetest/cases.go | awk '{print $2}')
bad=0
for f in $fns; do
  out=$(bin/govc -repo "$work/repo" -v fn "zzengine/$f" 2>&1)
  line=$(echo "$out" | grep "obligations," | tail -1)
  nd=$(echo "$line" | sed -n 's/.*, \([0-9]*\) not discharged.*/\1/p')
  n=$(echo "$line" | sed -n 's/^\([0-9]*\) obligations.*/\1/p')
  if [ -z "$nd" ]; then echo "ENGINETEST-ERROR $f: $(echo "$out" | tail -2 | tr '\n' ' ')"; bad=1; continue; fi
  case $f in
    ok*) if [ "$nd" != "0" ] || [ "$n" = "0" ]; then echo "ENGINETEST-FAIL $f: expected to verify, $line"; echo "$out" | grep "^FAIL" | head -3; bad=1; else echo "enginetest ok   $f ($n obligations)"; fi;;
    bad*) if [ "$nd" = "0" ]; then echo "ENGINETEST-UNSOUND $f: a false contract verified ($line)"; bad=1; else echo "enginetest ok   $f ($nd of $n open)"; fi;;
  esac
done
exit $bad
