#!/bin/bash
# allquick.sh: every registered quick check on the current tree; non-zero exit if any reports a violation
cd /verif
bad=0
for c in $(jq -r '.checks[].property_id' MANIFEST.json); do
  out=$(./check $c quick 2>&1 | tail -1)
  echo "$out"
  case "$out" in *" 0 violations"*) ;; *) bad=1;; esac
done
exit $bad
