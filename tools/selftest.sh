#!/bin/sh
# selftest.sh [PROPERTY...]: must-fail corpus. Every patch under selftest/<ID>/ is
# applied to a scratch copy of /repo's working tree; the property's check must fail
# there and name the expected obligation. A patch that stops failing means the
# check has lost sensitivity: exit 1.
here=$(cd "$(dirname "$0")/.." && pwd)
props="$*"
[ -n "$props" ] || props=$(ls "$here/selftest")
rc=0
for p in $props; do
  for patch in "$here"/selftest/$p/*.patch; do
    [ -f "$patch" ] || continue
    scratch=$(mktemp -d /tmp/verif-selftest.XXXXXX)
    rsync -a --exclude .git /repo/ "$scratch/repo/"
    if ! (cd "$scratch/repo" && grep -v '^#' "$patch" | patch -p1 -s --no-backup-if-mismatch >/dev/null 2>&1); then
      echo "SELFTEST-ERROR $p $(basename "$patch"): patch does not apply"; rc=1; rm -rf "$scratch"; continue
    fi
    expect=$(sed -n 's/^# expect: *//p' "$patch" | head -1)
    nb=1; grep -q '^# bounded' "$patch" && nb=
    out=$(VERIF_NO_BOUNDED=$nb "$here/bin/govc" -repo "$scratch/repo" -specs "$here/specs" -evdir "$scratch/ev" check "$p" quick 2>&1)
    code=$?
    if [ $code -eq 1 ] && echo "$out" | grep "^failed obligation\|^bounded stand-in" | grep -qF "$expect"; then
      echo "selftest ok   $p $(basename "$patch"): fails $expect"
    else
      echo "SELFTEST-MISS $p $(basename "$patch"): exit $code, expected failing obligation $expect"
      echo "$out" | tail -5 | sed 's/^/    /'
      rc=1
    fi
    rm -rf "$scratch"
  done
done
exit $rc
