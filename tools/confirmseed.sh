#!/bin/sh
# confirmseed.sh <worktree> <pkgdir> <patch> <demo_test.go> <demoTestRegexp> [test packages...]
# Confirms: the change compiles, existing tests of the given packages pass with it,
# the demo fails with it and passes without it.
wt=$1; pkg=$2; patch=$3; demo=$4; re=$5; shift 5
export GOFLAGS=-mod=mod GOPROXY=off GOSUMDB=off GOTOOLCHAIN=local
cd "$wt" || exit 2
git checkout -q -- . ; rm -f "$pkg"/zz_demo*_test.go
git apply "$patch" || { echo "APPLY-FAILED"; exit 1; }
go build ./... || { echo "BUILD-FAILED"; git checkout -q -- .; exit 1; }
t=$(go test -vet=off -count=1 "$@" 2>&1 | grep -E "^(ok|FAIL|---)" | grep -v "pty" | tr '\n' ';')
echo "existing tests with change: $t"
cp "$demo" "$pkg/zz_demo_test.go"
if go test -vet=off -count=1 -run "$re" "./$pkg" >/dev/null 2>&1; then echo "DEMO-WITH-CHANGE: pass (BAD)"; else echo "DEMO-WITH-CHANGE: fail (expected)"; fi
git checkout -q -- .
if go test -vet=off -count=1 -run "$re" "./$pkg" >/dev/null 2>&1; then echo "DEMO-WITHOUT-CHANGE: pass (expected)"; else echo "DEMO-WITHOUT-CHANGE: fail (BAD)"; fi
rm -f "$pkg/zz_demo_test.go"
