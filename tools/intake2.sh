#!/bin/sh
# intake2.sh <PROPERTY> <worktree> <pkgdir> <srcN> <dstN> <demoRegexp> [test packages...]
p=$1; wt=$2; pkg=$3; n=$4; m=$5; re=$6; shift 6
d=/verif/seeded/$p-$m
mkdir -p $d
cp $wt/_out/patch$n.diff $d/patch.diff 2>/dev/null || cp $wt/out/patch$n.diff $d/patch.diff
cp $wt/_out/demo${n}_test.go $d/demo_test.go 2>/dev/null || cp $wt/out/demo${n}_test.go $d/demo_test.go
echo "== confirm $p-$m (from $wt patch$n)"
/verif/tools/confirmseed.sh $wt $pkg $d/patch.diff $d/demo_test.go "$re" "$@" 2>&1 | tail -3
echo "== check $p-$m"
/verif/tools/tryseed.sh $p $d/patch.diff | grep -v "^VIOLATION\|^  replay\|^    "
git -C /repo status --short | grep -v "^??" | head -3
