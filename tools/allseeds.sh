#!/bin/bash
# allseeds.sh: every stored seeded change must still be detected by the check of its property
# (or, for C05-1, by C11's).  Applies each patch to /repo, runs the quick check, undoes it.
cd /verif
miss=0
for d in seeded/*/; do
  s=$(basename $d); p=$(jq -r .property $d/meta.json)
  [ "$s" = "C05-1" ] && p=C11
  cd /repo && git apply /verif/$d/patch.diff 2>/dev/null || { echo "SEED-ERROR $s: patch does not apply"; miss=1; cd /verif; continue; }
  out=$(cd /verif && ./check $p quick 2>&1 | tail -1)
  git -C /repo apply -R /verif/$d/patch.diff
  cd /verif
  case "$out" in *" 0 violations"*) echo "SEED-MISS $s ($p): $out"; miss=1;; *) echo "seed ok $s: $out";; esac
done
git -C /repo status --short | grep -v '^??'
exit $miss
