#!/usr/bin/env python3
"""mkmeta.py <ID-n> <property> <detected true|false> <breaks> <needs> <detected_by>"""
import json, sys
sid, prop, det, breaks, needs, by = sys.argv[1:7]
d = {
 "property": prop,
 "breaks": breaks,
 "needs_to_manifest": needs,
 "demo": "copy demo_test.go into the package directory of /repo as zz_demo_test.go; `go test -run Demo ./<pkg>` fails with patch.diff applied and passes without",
 "confirmed_by": "tools/confirmseed.sh in a scratch worktree: change compiles, existing tests of the package still pass, demo fails with / passes without the change",
 "detected": det == "true",
 "detected_by": by,
 "ran": f"tools/tryseed.sh {prop} /verif/seeded/{sid}/patch.diff (git -C /repo apply; ./check {prop} quick; git -C /repo apply -R)",
}
json.dump(d, open(f"/verif/seeded/{sid}/meta.json", "w"), indent=1)
print("wrote", sid)
