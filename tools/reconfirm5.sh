#!/bin/bash
# reconfirm5.sh <ID-n> : confirm a stored seed with the test names taken from its demo file
s=$1; p=${s%-*}; d=/verif/seeded/$s; wt=/tmp/seed5-$p
file=$(grep -m1 '^+++ b/' $d/patch.diff | sed 's|^+++ b/||'); pkg=$(dirname $file)
place=$(head -3 $d/demo_test.go | grep -m1 -o 'place in: *[^ ]*' | sed 's/place in: *//')
[ -n "$place" ] && pkg=${place%/}; pkg=${pkg#./}
re=$(grep -o '^func Test[A-Za-z0-9_]*' $d/demo_test.go | grep -v TestMain | sed 's/func //' | tr '\n' '|' | sed 's/|$//')
echo "== $s ($pkg, ^($re)\$)"
/verif/tools/confirmseed.sh $wt $pkg $d/patch.diff $d/demo_test.go "^($re)\$" ./$pkg 2>&1 | tail -3
