#!/usr/bin/env python3
"""Writes /verif/MANIFEST.json from the table below (kept in one place so the manifest stays valid)."""
import json, os, subprocess

HERE = os.path.dirname(os.path.dirname(os.path.abspath(__file__)))

CHECKS = {
 # id: (design section, claim text, level note, technique)
 "C16": ("5 C16",
  "doCmdCmp: the recorded updates change only on a normal return of a plain (not cmpenv), non-negated comparison that failed against a file of the script archive under UpdateScripts, and then exactly the entry keyed by that file's archive name is set to the actual text; "
  "every other map entry and every other path leaves the recorded updates untouched (cmpenv, negated cmp and files outside the archive never modify the script). "
  "applyScriptUpdates: the archive keeps its number, order and names of entries; an entry whose name has no recorded update keeps its data; the script file is written once, to ts.file, with Format(ts.archive); the comment is not written to (frame). The script file is written only when at least one update was recorded.",
  "assumed: ReadFile/Logf/MkAbs are side-effect free on the modelled state (trusted), diff.Diff is pure, os.WriteFile and txtar.Format as extern contracts; map iteration order is arbitrary. "
  "NOT decided: that an updated entry holds exactly the actual content (quoted iff NeedsQuote) — the map-iteration model does not give 'each key exactly once'; the fix-point clause (re-running passes and changes nothing) relies on C03's round trip and is not stated as a lemma here; "
  "the explicit panic for an update whose entry is missing is allowed (allowpanic)",
  "contract-based deductive verification: postconditions over the Go map heap (changed keys), nested loop invariants over the archive's entries, call-site obligations; z3/cvc5"),
 "C18": ("5 C18",
  "Contracts on every function of the import reader over a ghost input stream: the buffer always holds exactly the input bytes read so far (after an optional byte-order mark), errors and EOF are sticky, "
  "every slice expression (r.buf[start:], r.buf[:len-1]) is in bounds for arbitrary input and arbitrary I/O errors, the explicit 'import reader looping' panic is unreachable (nerr is bounded by per-function budgets), "
  "and ReadImports / ReadComments return only bytes read from the input: a prefix of it, which on a nil error is either everything read minus the peeked byte or the whole input. "
  "Agreement with go/parser on valid files (import list, re-parsable prefix, BOM) is checked by a bounded stand-in only. readIdent leaves the byte that ends the identifier peeked (not consumed).",
  "assumed: bufio.Reader.ReadByte/Peek/Discard over the ghost input, package-level error values are distinct non-nil constants; termination of the scanning loops is not shown (no decreases clauses); "
  "bounded: go/parser agreement over generated files (2 BOM variants x 3 package clauses x up to 3/4 import sections from a 9-element vocabulary x 4 tails); the Go grammar has no contract-level specification",
  "contract-based deductive verification (representation invariant + ghost input, 12 functions, 360+ VCs; z3/cvc5) plus a labelled bounded differential stand-in against go/parser"),
 "C19": ("5 C19",
  "Functional contracts on imports.matchTag (rune loop with an inductive invariant), matchTags (recursive; comma = AND, !, !!), matchOS and MatchFile: each result equals a specification "
  "written from the build-constraint rules (android also selects linux, tags[\"*\"] accepts everything but ignore), for every name and every non-nil tag map; ShouldBuild is proved memory-safe "
  "(all slice/index expressions incl. f[0]) and its line evaluation goes through matchTags' contract; its block/line structure is compared with go/build/constraint by a bounded stand-in. ShouldBuild evaluates options only for a line whose first field is exactly +build; ScanDir scans a directory entry only if it is a regular file whose name does not start with _, ends in .go and passes MatchFile's rule.",
  "assumed: extern contracts for strings.Index/Split/Fields/HasPrefix, bytes.IndexByte/TrimSpace/HasPrefix, unicode.IsLetter/IsDigit (uninterpreted), UTF-8 decoding (uninterpreted runeAt/runeW); "
  "nil tag maps are outside the contracts (requires tags != nil); MatchFile's specification is close to the code (spec-near) except for the OS-selection rule; "
  "bounded: ShouldBuild vs go/build/constraint over blocks of up to 4 (quick) / 6 (thorough) lines from a 15-line vocabulary (incl. a comment that merely starts with +build, a term with a trailing comma, a whitespace-only line, CRLF lines, a +build line without options and one with a detached !) and 4 tag sets",
  "contract-based deductive verification (VCs over go/ssa incl. a recursive spec function and a rune-iteration invariant, z3/cvc5) plus a labelled bounded stand-in for ShouldBuild's block structure"),
 "C06": ("5 C06",
  "Per-call contracts over a ghost lock state fdMode[descriptor]: filelock.lock returns nil only after a successful flock with the requested type (EINTR retried, failures leave the state unchanged); "
  "openFile/OpenFile/Open/Create/Edit return a fresh, open descriptor holding exactly the lock its flags demand (write access => exclusive, otherwise shared) and touch no other descriptor; "
  "closeFile unlocks before closing; File.Close releases on the first call and touches nothing on later calls. Proved for all flags, names and failure outcomes of the underlying calls.",
  "assumed: flock(2) gives mutual exclusion between open file descriptions holding these modes (kernel semantics, NFS, fcntl interaction are outside the model); extern contracts of os.OpenFile, (*os.File).Close/Fd, syscall.Flock over the ghost state; "
  "bit masks of symbolic flags via uninterpreted band/bandnot/bor with range/single-bit axioms; exclusion across processes itself follows only on paper from the per-descriptor statement",
  "contract-based deductive verification: ghost typestate per descriptor, call-site obligations, loop invariant for the EINTR retry loop; z3/cvc5"),
 "C07": ("5 C07",
  "Transform is proved failure-atomic: with at most one failing file operation (ghost failBudget == 1; a failing WriteAt may have written any prefix) and for every old/new length relation, an error return leaves bytes and length of the file as they were, "
  "and a nil return leaves exactly what t returned; the deferred rollback closure is verified against its own contract and applied at every exit. Lock discipline is proved as call-site obligations: O_TRUNC is stripped from the open call and truncation happens only under the lock, "
  "Read reads under the shared lock and Write/Transform read, write and truncate only under the exclusive lock of a descriptor opened by the same call.",
  "assumed: byte-level ghost file model and step contracts of (*os.File).WriteAt/Truncate, io.ReadAll/io.Copy on a *File, os.OpenFile; t does not modify its argument or the file (callee clause); "
  "linearizability of concurrent Read/Write/Transform is NOT decided by contracts: it follows on paper from the proved lock discipline plus flock exclusion (two-phase locking); Write's contents are left abstract (io.Copy)",
  "contract-based deductive verification with a single-failure ghost budget over atomic file steps (all failure points and length relations at once), closure contracts, call-site typestate obligations; z3/cvc5"),
 "C05": ("5 C05",
  "Lookup side of the property, for arbitrary bytes in the index entry and data file: every index/slice expression of get (176-byte buffer, four re-slicings, two hex.Decode calls whose length precondition is checked) is in bounds, "
  "so no lookup panics; every error returned by get/Get/GetBytes/GetFile is the not-found error type; get succeeds only on a record of exactly the specified size with the specified header/separator bytes, "
  "whose decoded action id equals the requested id, and with non-negative size and time; GetBytes returns data only when sha256(data) equals the reported OutputID; GetFile returns a name only when the file's length equals the reported size. Put hashes and copies its source from offset 0 (ghost seek position), and the store-side step obligations of C11/C12 are part of this check's set.",
  "assumed: extern contracts for io.ReadFull, encoding/hex.Decode, strconv.ParseInt, crypto/sha256.Sum256 (uninterpreted, deterministic), os.Stat/ReadFile/Open; [32]byte values compare as whole arrays. "
  "NOT decided by this check: the end-to-end lemma 'Put then Get returns exactly the data' and the repair of a damaged output as one statement: put/copyFile/putIndexEntry are under step contracts (C11/C12) that are part of this check's set, but the combination is on paper",
  "contract-based deductive verification: safety and functional postconditions over go/ssa with ghost bindings of the read buffer; z3/cvc5"),
 "C08": ("5 C08",
  "Proved by contract, for all pairs of texts: Diff returns nil exactly when the two inputs are byte-identical and otherwise a non-empty result; every index and slice expression of Diff's nine loops is in bounds (relative to the contract of the anchor computation tgs: sentinels, pairs inside the texts, interior pairs name equal lines unique in both texts, pairs increasing); "
  "the position bookkeeping is exact (chunk start + lines counted == lines consumed, on both sides, at every loop head); every hunk header is printed with the 1-based start of its body (0-based when that side is empty) and the counts accumulated with the body; hunks are emitted in increasing, non-overlapping order on both sides "
  "(the uniqueness argument that a later anchor can never lie inside an already consumed run is part of the loop invariant). "
  "Checked by BOUNDED stand-ins only: that the body lines themselves are the right lines (the diff applied forwards and backwards reproduces the other text), the missing-final-newline convention of lines(), and tgs's contract itself — exhaustive over all pairs of texts of up to 4 (quick) / 5 (thorough) lines "
  "from {a, b, c, '+x', a line that looks like a hunk header}, with and without final newline, plus a structured sweep (prefix 0..4, gap 0..9, suffix 0..4, 4x4 kinds of change, 4 newline variants) around the hunk-merging threshold.",
  "assumed: tgs's contract (trusted for the proof, evaluated on the real function by the stand-in on every run; tgs's own body incl. its sort.Search closure is not verified), bytes.Equal, strings.SplitAfter, fmt/bytes.Buffer externs; lines() is verified for memory safety only. "
  "The bounded stand-ins are not proofs and are not counted in obligations/discharged",
  "contract-based deductive verification (9 loop invariants incl. a quantified alignment invariant over the remaining anchors, ghost hunk ends, call-site obligations on the header print; z3/cvc5) plus labelled bounded stand-ins (independent patch applier + tgs contract checker on the real functions)"),
 "C09": ("5 C09",
  "Rely-guarantee proof of the runner bookkeeping with ghost counters per Work (sleeping S, signalled K, exited X, in-f F, runners spawned): under arbitrary interference allowed by the rely clause, every step of Add, Do and runner "
  "(stores to waiting/todo, Signal, Broadcast, the two phases of Cond.Wait, Lock/Unlock with their ghost transitions) re-establishes the invariant: waiting == S+K+X while the mutex is free, S+K+X+F never exceeds the runners spawned (<= n), "
  "nobody sleeps once waiting == running, and queued work with no exited runner means not every runner is asleep (no lost wake-up / all-asleep state). Named consequences: a runner returns (and Do with it) only with F == 0 and an empty queue; "
  "f is called outside the lock while counted in F (at most n at a time); Do starts exactly n-1 goroutines plus itself; rand.Intn is called with a non-empty queue. While any runner sleeps, every queued item has a signalled runner of its own (an Add that finds a sleeper always wakes one).",
  "assumed: sync.Mutex / sync.Cond semantics as two-phase contracts (Wait returns only to a signalled sleeper, no spurious wake-ups), the ownership reading of the rely clause (each active runner owns one unit of spawned - (S+K+X+F)), "
  "Work.running/f/wait.L are written only by Do before the runners start (not in the shared set); f touches the Work only through Add. "
  "Item level: Add queues an item exactly when it was not in added (snapshot ghosts over todo/added), runner hands f only items taken out of todo; that the map 'added' itself de-duplicates is the Go map's; NOT decided: termination/liveness proper (fair scheduler, terminating f)",
  "contract-based deductive verification: rely/guarantee clauses with ghost counters, ghost updates at call sites, two-phase blocking-call contracts; thread-modular VCs discharged by z3/cvc5"),
 "C10": ("5 C10",
  "Rely-guarantee proof over the shared entry state (done, result, ghost invocation count and returned value, mutex held-flag): the environment may take arbitrary steps allowed by the rely clause before every shared access and around every call; "
  "every write of Do (the call of f, the store of result, the atomic store of done) is checked against the guarantee and the global invariant (done==1 implies f ran exactly once and result is its value; done==0 with a free mutex implies f has not run). "
  "Consequences proved as obligations: f is called only under the entry's lock with invocation count 0; Do returns only with done==1, count==1 and the value f returned; Get contains no Lock/Wait call and returns nil or that value. For every interleaving, not a sample.",
  "assumed: sync.Mutex semantics (Lock returns only when free), sync.Map gives one entry per key (package-local extern contracts), Go memory model for sync/atomic (a load that sees 1 sees the preceding plain store), sequential consistency of the modelled steps; "
  "soundness of the rely-guarantee rule implemented in govc (interference points: every shared access and call); liveness (that Do eventually returns) is not claimed",
  "contract-based deductive verification with rely/guarantee clauses and ghost history variables; thread-modular VCs over go/ssa discharged by z3/cvc5"),
 "C11": ("5 C11",
  "Decided as properties of the individual file steps rather than by exploring interleavings: putIndexEntry opens the entry file without O_TRUNC and with O_CREATE, and truncates it to the entry's length only after a successful write, "
  "so a rewrite of equal content never shortens or empties an entry a concurrent reader may be looking at; the reader-side gates (C05's contracts on get/GetBytes/GetFile: exact record size and layout, matching action id, checksum, size) "
  "hold whatever another process has written; copyFile writes the size-completing last byte only after the hash comparison succeeded; put writes the index entry only after copyFile returned nil and with the id, output id and size it computed.",
  "assumed: each os call is atomic with respect to the others (a reader's single ReadFull does not observe half of a concurrent WriteString); SHA-256 is collision-free; the interference-freedom argument that combines these step properties into 'every successful lookup returns bytes some Put stored for that id' is on paper (DESIGN section 5 C11), not an obligation; "
  "'once all writers have finished every stored id is readable' needs the Put-then-Get lemma, which is not stated yet",
  "contract-based deductive verification: call-site obligations on the file steps of the store side plus the lookup-side functional contracts; z3/cvc5"),
 "C12": ("5 C12",
  "copyFile: once the output file has been opened for writing, every error return is preceded by truncating the file to zero length or removing it (ghost history flag set by the step contracts), unless that clean-up step is itself the single permitted failing operation; "
  "the last (size-completing) byte is written only after bytes.Equal on the running hash and the expected output id returned true. putIndexEntry: an error is returned only after trying to remove the entry file. "
  "put: a failing copyFile returns its error and putIndexEntry is never reached; no other path of put calls it. The output file is only ever truncated to length zero (never pre-sized), so it cannot have its final size before the committing byte.",
  "assumed: step contracts of os.OpenFile / Truncate / Remove / Write / Close, io.CopyN and io.MultiWriter (abstract), hash.Hash (abstract), the source reader (abstract); stopping between two steps is the same state as returning after the first (atomic-step view). "
  "NOT decided: the byte-level invariant 'the data file never reaches the expected size with unverified content' during the copy (needs a positional content model of overwriting an existing shorter/equal file), and the exotic case of overwriting in place a same-size file whose verification could not be opened",
  "contract-based deductive verification: ghost clean-up history, single-failure budget, call-site ordering obligations; z3/cvc5"),
 "C13": ("5 C13",
  "Contracts over ghost mtimes, a monotone clock and integer nanoseconds: used() leaves an existing file's mtime younger than (now - 1h) when no file operation fails; OutputFile calls it on the name it returns; "
  "trimSubdir calls os.Remove only on Join(subdir, n) for listed names n ending in -a/-d whose mtime is before the cutoff (call-site obligation) and, when nothing fails, removes every such name (loop invariant); "
  "Trim passes cutoff = now - 5d - 1h, performs no file-changing step at all when the last-trim record as read parses to a time within (-1h, 24h) of now, and otherwise (on success) rewrites the record; "
  "lemma retention: an entry used within the last five days is never older than the cutoff. A successful GetFile (like OutputFile) leaves the data file's mtime younger than one hour before the call.",
  "assumed: time as mathematical nanoseconds (time.Unix overflow on absurd trim.txt values is outside the model), monotone clock readings (callee clause on c.now), extern contracts of os.Stat/Chtimes/Remove/Open, "
  "Readdirnames returns every name of the directory; that the 256 subdirectory names are Join(dir, %02x) is not decided (fmt.Sprintf is uninterpreted), nor the textual content written to trim.txt",
  "contract-based deductive verification: ghost fs/mtime/clock state, call-site obligations, ghost bindings of call results, loop invariants; z3/cvc5"),
 "C15": ("5 C15",
  "Contract on txtar.Write over a ghost file-system model: every file that exists afterwards and did not before lies at or below dir (lexically), "
  "files that existed are neither removed nor changed (the open uses O_CREATE|O_EXCL, checked as a call-site obligation), a nil error implies that no entry name was absolute or climbed out through '..', "
  "and that each target path holds exactly its entry's data; loop invariants over the processed prefix of a.Files, for every archive and directory.",
  "assumed: the ghost fs contracts of os.OpenFile/(*os.File).Write/Close/os.MkdirAll and the Unix path algebra of filepath.Clean/Join (axiom joinBelow) in /verif/specs/fs.spec; lexical containment only (symlinks below dir are not modelled); "
  "txtar-x's main is under a thin contract (the parsed archive is written into the -C directory; a failing Write ends in exit status 1) and so is txtar-c's walk function (see C14); the byte-exact round trip txtar-c | txtar-x is not decided (it needs Format/Parse, C03's stand-in)",
  "contract-based deductive verification: VCs over go/ssa with ghost file-system state and call-site obligations, discharged by z3/cvc5; violations replayed by a directed probe of the real Write"),
 "C14": ("5 C14",
  "Contracts on txtar.NeedsQuote (true exactly when a file marker line starts at some line start of the body, for every byte string, with or without final newline; discharged through findFileMarker's contract), "
  "on txtar.Quote (it refuses exactly the non-empty data that lacks a final newline or is not valid UTF-8, never returns a wrong result instead; its result is newline-terminated and every line of it starts with '>'; loop invariant, termination) "
  "and the lemma that data whose every line starts with '>' contains no marker line, so a quoted body never needs quoting. "
  "txtar-c's walk function: a file is archived only if regular, not hidden (unless -a) and valid UTF-8; what is stored is the data NeedsQuote was asked about, quoted exactly when it needs quoting and only with -quote, and a quoted file is announced in the comment. "
  "Unquote is under contract: it refuses exactly non-empty data that does not start with '>' or does not end in a newline, returns nil for empty data, and otherwise returns bytes.TrimPrefix(bytes.Replace(data, LF '>', LF, all), '>') of the caller's data (call-site obligations pin both calls' arguments and their order; the result is strictly shorter than the input). "
  "That this composition is the inverse of Quote for all data, Unquote(Quote(data)) == data, is checked by a BOUNDED stand-in only (generated bodies over {'>', LF, '-', ' ', 'x', CR}).",
  "assumed: extern contracts for bytes.*, strings.TrimSpace, utf8.Valid (uninterpreted); bytes.Replace's result is not modelled beyond freshness, length and its first byte, so the inverse law of Unquote is bounded only; 'survives Format/Parse unchanged' rests on C03's stand-in; in txtar-c the relative file name is not specified (the final-newline normalisation is: at most one added newline), os/filepath.Walk is the library's",
  "contract-based deductive verification: VCs over go/ssa with loop invariants and a lemma, call-site obligations and ghost bindings for txtar-c; z3/cvc5; counterexamples replayed with go test -overlay; labelled bounded stand-in for Unquote"),
 "C01": ("5 C01",
  "Verdict logic under contract: run executes a line only while no line has failed unless ContinueOnError and never after stop; a failing line without ContinueOnError reaches FailNow; run returns normally only if no line failed (a failure with ContinueOnError still ends in FailNow: no false pass); "
  "PASS is logged only for a run that neither failed nor stopped; Fatalf's FAIL line carries the script's file name and current line number; runLine never dispatches an unknown command and indexes its argument list safely for every line; "
  "catchFailNow runs its callback only for the failNow panic value; the polarity applied to each [cond] guard is that of this very guard; demands of exists (every listed file exists, or with ! does not) and of stdout/stderr/grep/ttyout (match, or with ! no match; with -count=N exactly N matches) hold on every normal return; "
  "for cd, chmod, cp, mkdir, mv, symlink, unquote, unix2dos, stdin, stop, cmp/cmpenv, wait and rm a normal return means the command was not negated where negation is unsupported, was used with the right number of arguments (every args index in bounds), and (except rm's best-effort first removal) no file operation it performed failed; skip never returns normally. condition() is under contract (an operating-system name holds exactly for the current OS, an architecture name for the current architecture, unix per the table, gc/gccgo, exec: through the cache; anything else needs a user Condition, else Fatalf); the standalone command's Run never clears its failure flag (a failing script followed by a passing one still exits non-zero).",
  "assumed: only non-panicking executions are modelled (a Fatalf call ends its path, recover() is nil), so runLine's boolean result and callBuiltinCmd's panic filtering are trusted, as are waitBackgroundOne (bounded stand-in under C04), condition's user-callback closure, unix2DOS and the logging closures (setup and waitBackground are verified under C04); "
  "T.FailNow / T.Fatal do not return; regexp semantics are uninterpreted (matchP / countP). kill: a normal return means it was not negated, had at most two arguments, and the process signalled is the one named by the first argument unless that is a -SIGNAL option (then the second), all processes only when that name is absent or empty (killBackgroundOne/killBackground themselves and the choice of signal are trusted). NOT decided: env, ttyin; what a successful cp/mv/mkdir/... did to the file system (the OS's); the evaluation of a user-supplied Condition callback, background-command status in wait, and the standalone testscript command's exit status beyond 'the failure flag is never cleared'; exec's verdict is covered as far as C04's process accounting and the usage check go",
  "contract-based deductive verification: loop invariant over the script loop, call-site obligations and per-command postconditions over go/ssa; z3/cvc5"),
 "C02": ("5 C02",
  "Contracts on the tokenizer parse (every line[i], line[i+1], line[start:i] in bounds for every line; the scan terminates; every call of expand happens outside quotes, i.e. quoted text is never expanded), "
  "on the expansion closure (${NAME@R} is regexp.QuoteMeta of NAME's value, any other key its value), on Getenv/Setenv (Setenv appends key=value to the child environment list and sets the same value in the lookup map), "
  "and call-site obligations that exec and execBackground start the child with Dir = the script's directory and Env = the script's list plus PWD. "
  "The splitting function itself (words, '' , #, no re-splitting / re-expansion of values) is compared with a reference tokenizer written from the property text by a bounded stand-in. The last entry of a child's environment is PWD= followed by the script's current directory, for foreground and background commands.",
  "assumed: os.Expand applies the mapping to $NAME / ${NAME} references (its grammar is not modelled), regexp.QuoteMeta matches exactly its argument, os/exec uses the last duplicate in Env; waitOrStop, pty helpers and execpath.Look are trusted (pure); "
  "the pointwise agreement of the env list with envMap across all assignments (lastVal) is not stated as an invariant, only the per-Setenv step; bounded: tokenizer vs reference over lines of up to 5 (quick) / 7 (thorough) tokens from a 13-token vocabulary (incl. a two-byte UTF-8 letter whose second byte is 0xA0, a form feed and a no-break space, which are not separators) with two variables whose values contain blanks, quotes and a $ reference",
  "contract-based deductive verification (safety, termination and call-site obligations over go/ssa; z3/cvc5) plus a labelled bounded stand-in for the tokenizer's functional behaviour"),
 "C03": ("5 C03",
  "Contracts on txtar.isMarker, fixNL, findFileMarker and Parse, discharged for every byte string: every index/slice expression is in bounds (Parse cannot panic); isMarker's result equals the marker vocabulary written from the format text (a line '-- name --' with a non-blank name, LF or CRLF ended or at end of input) and its remainder starts after that line; "
  "findFileMarker returns the first marker line that starts at a line start (nothing before it is a marker), the text before it as a prefix of the input, its trimmed name and the rest after it, and without a marker the newline-normalised input; its scan terminates; "
  "Parse terminates (each round consumes at least the marker line), returns a fresh archive, and every file it returns has a non-empty name. "
  "The round-trip clauses (Parse of Format of a normalised archive gives it back; Format of Parse normalises only by adding missing final newlines; agreement with golang.org/x/tools/txtar on CR-free input; CRLF == LF marker recognition) are checked by a BOUNDED stand-in only: "
  "exhaustive over concatenations of up to 5 (quick) / 7 (thorough) marker-relevant tokens.",
  "assumed: extern contracts for bytes.HasPrefix/HasSuffix/IndexByte/Index and strings.TrimSpace; mathematical integers; Format is golang.org/x/tools/txtar's (outside the module: no contract, exercised only through the stand-in); "
  "that every parsed body is free of marker lines is proved for findFileMarker's 'before' relative to the input, not restated for the body as a slice of its own",
  "contract-based deductive verification: VCs over go/ssa with loop invariants and termination measures, discharged by z3 4.8/5.1 and cvc5; plus a labelled bounded stand-in for the round trip"),
 "C20": ("5 C20",
  "Contracts on the request handler, the zip-building closure and allHex over a ghost response (status set, number of body writes) and ghost zip-entry counters: "
  "a .info / .mod request answers with exactly one write, of the data of the first stored file named .info / .mod, and nothing else; the zip closure creates an entry only for stored files whose name does not start with a dot, "
  "under the name path@version/<file name> (byte-exact) and writes exactly that file's data into it; the list endpoint prints only versions of the requested module path that are not pseudo-versions and pass module.Check, and prints that entry's version; "
  "every request is answered (a body write or a status), a 404 never carries a body, missing archives / unknown extensions / undecodable paths give 404; the handler writes no field of the Server (frame: modList and the caches are read only); all slice/index expressions are in bounds for arbitrary URLs. The commit-hash resolution considers only versions of the requested module, updates its choice only to a semver-greater version, decides pseudo-versions by their suffix and others by findHash, and tests the prefix relation both ways; the path part is decoded with UnescapePath and the version part with UnescapeVersion; the directory walk never skips a directory; readModList splits names at the last _v.",
  "assumed (trusted, not verified): readArchive/findHash/isPseudoVersion themselves are trusted (side-effect free; isPseudoVersion's result is checked by the bounded stand-in only); the archive-loading closures readArchive$1 / readArchive$1$1 and readModList are under contract (.txtar first, .txt only if absent, directory only if neither; the file read is the one visited; names split at the last _v); par.Cache.Do runs the closure and returns its value (C10's contract is not re-used here: a local thin contract, type assertion .(cached) assumed); "
  "archive/zip, net/http, fmt.Fprintf, x/mod module and semver as extern contracts; byte-identity of the HTTP body on the wire and validity of the zip container are the libraries'; 'same under concurrent requests' follows only from the frame (handler writes no server state) plus C10 on paper; the commit-hash to version resolution is specified relative to abstract storedHash / prefix / semver-order functions, not to findHash's body",
  "contract-based deductive verification: call-site obligations and loop invariants over a ghost HTTP response, byte-level string concatenation for the zip entry names; z3/cvc5"),
 "C04": ("5 C04",
  "Contracts over the per-script state and ghost process/clean-up state. setup (fully under contract): the environment list is the literal list (WORK=<workdir> first, GOTRACEBACK=system, ..., $=$) plus at most GOCOVERDIR/GORACE plus exe=; the host environment is read only through os.Getenv with the keys PATH, GOCOVERDIR, GORACE and os.Environ is never called; "
  "ts.env is exactly the Env.Vars handed to (and possibly extended by) Params.Setup; archive files are written with O_EXCL exactly when RequireUniqueNames is set and with the entry's data. "
  "run: before setup, every runLine and every FailNow the defer stack already holds the background clean-up (bottom), the ts.deferred() closure and (after setup) applyScriptUpdates, in that order; "
  "Defer builds a closure that calls f with the old chain already deferred (LIFO, old chain runs even if f panics). "
  "Processes: exec leaves started-minus-reaped unchanged; cmdExec records a started background command in ts.background before any call that can stop the script, its wait channel is closed only after waitOrStop, which returns only after cmd.Wait returned; "
  "waitBackground and run's clean-up closure receive from every recorded wait channel on both branches before clearing the list. "
  "RunT hands pairwise distinct names to t.Run (partial contract: only this clause and its loop invariants are proved for RunT); RunT's per-script closure allocates a fresh TestScript, registers the clean-up before run; the clean-up removes ts.workdir unless retention was requested and removes the shared root (and cancels) exactly when its own atomic decrement brings the count to zero; removeAll removes the tree it was asked to. writeFile opens with create+truncate and exclusively exactly when asked to; waitBackgroundOne (pointers into the background slice, outside the modelled subset) is covered by a BOUNDED stand-in only: every list of up to 3 (quick) / 4 (thorough) entries on real processes, every named target: exactly that entry is removed after its process was waited for.",
  "NOT decided: non-interference between parallel scripts beyond 'fresh per-script state, no os.Environ, distinct clean-up' (scripts sharing files through absolute paths, cd, or chdir of the process are outside any per-call contract); that a signalled process really dies and os.RemoveAll succeeds; the Fatalf/FailNow paths run deferred functions by runtime.Goexit (Go semantics, assumed). "
  "assumed (trusted): user clean-up functions (run$4) do not touch ts.background; homeEnvName/tempEnvName, abbrev, the pty helpers of exec; externs for os/exec, os, filepath, context, fmt; Params.Setup modifies only Env fields, ts.deferred, strings and files; "
  "waitBackground is verified without its index/type-assertion safety (nosafety, assume_typeasserts); waitBackgroundOne is outside the modelled subset (pointer into a slice element) and covered by the labelled bounded stand-in TestVerifBoundedWaitOne only",
  "contract-based deductive verification: call-site obligations over the symbolic defer stack (deferIndex), closure facts (isClosure/capturedInt), ghost process counters and received-channel history, loop invariants over the environment list; z3/cvc5"),
}

# Additions made after the blind seeding round (appended to the claim texts above).
EXTRA = {
 "C01": " cmdExec returns normally only if the outcome of the child matches the polarity: a failed start of a background command or a failed foreground run reaches the caller unless negated, and a negated foreground exec must have failed. RunMain's wrapper exits with exactly the status the command function returned; a [go1.N] condition holds exactly when slices.Contains finds it among the toolchain's release tags. A command name found in the built-in table always gets the built-in (Params.Cmds cannot shadow it); the verdict of `wait name` (waitBackgroundOne, outside the modelled subset) is checked by a BOUNDED stand-in (true/false commands, both polarities, with neighbours). For grep the text searched is the content of the file named by its argument (through MkAbs and os.ReadFile). skip checks the status of background commands through wait before skipping; an error returned by a condition always fails the line (no normal return of runLine after one).",
 "C02": " env NAME=VALUE (cmdEnv): the name is the text before the first '=', the value the text after it, stored as given (no second expansion). run hands every script line to runLine whole (from the start of the line to the byte before its newline or the end of the script) and runLine hands it to parse unchanged.",
 "C03": " Parse hands its whole input to the first marker scan (nothing is stripped first).",
 "C04": " RunT's per-script closure is handed to t.Run under the very name that was checked for distinctness; cmdExec's start/run errors reach the caller (not swallowed); the wait-for-one-background-command path (waitBackgroundOne) is covered by a BOUNDED stand-in only (pointers into slice elements are outside the modelled subset). On entering the script loop RunT's clean-up counter equals the number of scripts. The shared context is cancelled only by the last script to finish (and never when work directories are retained). unix2dos (like unquote and mv) reads and writes only through MkAbs-resolved paths; these file commands are part of this check's set.",
 "C05": " copyFile returns nil only when the output file exists under its name. putIndexEntry returns nil only after the entry file was opened and the entry text written; Put, PutNoVerify and PutBytes hand their arguments to put unchanged (PutBytes stores exactly the given bytes). No lookup calls a method on a nil FileInfo (method calls on interface values obtained from a call are safety obligations).",
 "C06": " Mutex.Lock opens and locks the file at mu.Path itself. Read, Write and Transform leave no lock behind: the descriptor they opened is unlocked and closed on every return.",
 "C07": " openFile with O_TRUNC returns a nil error for a regular file only after truncating it to length 0 (a failed truncation is ignored only for non-regular files).",
 "C08": " testscript's cmp/cmpenv hand Diff exactly the two texts that were compared (call-site obligation in doCmdCmp).",
 "C09": " When Do becomes a runner itself, all w.running runners have been started (otherwise waiting == running is never reached). The number of runners is the caller's n (w.running == old(n) where Do becomes a runner).",
 "C11": " copyFile returns nil only when the output file exists; put itself never removes or truncates a file.",
 "C12": " put itself never removes or truncates a file; copyFile never reopens for writing an existing output whose size and hash already match, passes O_TRUNC only when the existing file is longer than the new content, and truncates only to zero. The lookup side (GetFile's size gate, GetBytes' checksum gate, get's record layout) is part of this check's set.",
 "C13": " GetBytes reads the data file only after its mtime was refreshed (younger than one hour before the call, when no file operation fails), like GetFile. A due Trim makes exactly 256 trimSubdir passes, the i-th on Join(dir, Sprintf(\"%02x\", i)). trimSubdir asks for the whole directory listing (Readdirnames with n <= 0), and the 256 passes happen whenever the last-trim record is not recent, whatever else Trim returns.",
 "C14": " What txtar-c hands to NeedsQuote is the file's bytes as read, changed at most by one added final newline. isMarker, findFileMarker and fixNL (through which NeedsQuote's contract is discharged) are part of this check's set.",
 "C15": " cmd/txtar-x's main extracts the freshly parsed archive with txtar.Write into the directory given by -C and ends with exit status 1 exactly when Write failed; cmd/txtar-c's main walks from the cleaned directory argument, so entry names are relative to it. For the round-trip clause, the quoting functions (NeedsQuote, Quote, lemma quotedSafe), the marker scanner and Parse, with both txtar stand-ins (BOUNDED), are part of this check's set. Write returns its outside-parent error only for a name that is absolute or climbs out (in-bounds names such as ..data are not refused). A quoted file is announced in the comment under the same name its entry gets. txtar-c's walk callback never skips the root directory it was given; the archived name is the walked path with exactly the directory argument and one separator removed from its front (so a leading dot of a top-level name survives), and that name is what is stored.",
 "C16": " setup records every unpacked file under its absolute path with the entry's raw name as written in the archive (what applyScriptUpdates matches on), and is part of this check's set. run (which must hold applyScriptUpdates on the defer stack before any line runs or fails) is part of this check's set. cmp reads its second operand from the file MkAbs names (never the stdout/stderr buffers).",
 "C18": " scanFiles (the caller that feeds files to ReadImports) is in this check's set: it reads imports without syntax-error reporting and only from the opened file. readKeyword: without error the byte after the keyword is peeked and is not an identifier byte; the stand-in also checks every generated file with CRLF line ends; ScanFiles hands its arguments to scanFiles unchanged. The reader records only its two sentinels or errors of the underlying reader, and ReadImports never returns the syntax sentinel when syntax errors are not requested. The // comment loop of peekByte terminates (decreases clause over remaining input, end of input and error); readKeyword skips white space before the keyword only, never between its bytes. peekByte's block-comment loop keeps the last two input bytes in its window, no */ ends before the window, and without error it stops just after the first */ that follows the opener (so /*/ does not close and /***/ does).",
 "C19": " scanFiles evaluates ShouldBuild on exactly the bytes it read and with the caller's tag map (unless the files were named explicitly).",
 "C20": " par.Cache's Do and Get (C10's rely-guarantee contracts) are part of this check's set; isPseudoVersion is compared with golang.org/x/mod/module.IsPseudoVersion by a BOUNDED stand-in over composed version strings (no build metadata other than +incompatible). readArchive looks an archive up under <dir>/<escaped path with / as _>_<escaped version> (.txtar and .txt appended for the file forms), uses that base name as cache key, and its cache closure always returns a typed value. The archive closure returns a non-nil archive only when one of the three loading steps succeeded.",
}

NOT_YET = "not yet brought under contract in this round of work (see DESIGN.md section 8 build order); no check is registered, so nothing is claimed"
NA = {
 "C17": "not applicable to contract-based deductive verification: the statement is about wall-clock instants, OS signal delivery and a goroutine racing cmd.Wait through select/timers; no pre/postcondition over one call can mention these (DESIGN.md section 6)",
}

def main():
    props = [json.loads(l)["id"] for l in open(os.path.join(HERE, "properties.jsonl"))]
    hooks = subprocess.run(["git", "-C", "/repo", "log", "--format=%H %s"], capture_output=True, text=True).stdout.splitlines()
    hook_commits = [l.split()[0] for l in hooks if l.split(" ", 1)[1].startswith("verif:")]
    checks = []
    for pid in props:
        if pid in CHECKS:
            sec, text, note, tech = CHECKS[pid]
            checks.append({
                "property_id": pid,
                "quick_cmd": f"./check {pid} quick",
                "thorough_cmd": f"./check {pid} thorough",
                "evidence_file": f"/verif/evidence/{pid}.json",
                "replay_cmd_template": "cat {path}",
                "engine": "govc",
                "level_claimed": {"category": "proof", "text": text + EXTRA.get(pid, ""), "design_ref": sec},
                "level_note": note,
                "technique": tech,
            })
    na = []
    for pid in props:
        if pid not in CHECKS:
            na.append({"property_id": pid, "reason": NA.get(pid, NOT_YET)})
    m = {
        "version": 1,
        "setup_cmd": "cd /verif/govc && GOFLAGS=-mod=vendor GOPROXY=off GOSUMDB=off GOTOOLCHAIN=local go build -o /verif/bin/govc .",
        "hooks": {
            "guard": "verif",
            "enable": "go build tag `verif` (-tags=verif): adds comment-only files <pkg>/zz_contracts_verif.go holding //@ contract lines; govc loads /repo with that tag",
            "baseline_off_cmd": "cd /repo && go test -mod=mod -json -vet=off -count=1 -timeout 25m ./...",
            "source_commits": hook_commits,
            "add_only": True,
        },
        "engines": [{
            "name": "govc", "path": "/verif/govc",
            "serves_properties": sorted(CHECKS),
            "kind_free_text": "VC generator over go/ssa (x/tools v0.29.0, vendored) for //@ contracts kept in build-tagged comment files in /repo; obligations discharged by racing z3 4.8.12, z3 5.1.0 and cvc5 1.0; counterexamples replayed on the real package with go test -overlay",
        }],
        "checks": checks,
        "not_applicable": na,
        "notes": "See DESIGN.md (section 10 is the as-built account; 10.7 the false-alarm corpus). Package-level functions of strings/bytes/strconv/unicode/utf8/slices/maps/cmp/math/path/sort/errors without an explicit contract are assumed pure with an unconstrained result and listed per use in each evidence file's trusted_base. Evidence files are rewritten by every run. known_findings.txt lists fixed: entries for defects repaired by fix: commits in /repo.",
    }
    json.dump(m, open(os.path.join(HERE, "MANIFEST.json"), "w"), indent=1)
    print("wrote MANIFEST.json with", len(checks), "checks,", len(na), "not_applicable")

main()
