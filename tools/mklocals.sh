#!/bin/bash
# mklocals.sh: records the declared variables of every function under contract (specs/locals.json),
# the baseline against which renamed locals are recognised (govc/alias.go).  Run it on the
# UNCHANGED tree whenever contracts are added or /repo's code under contract legitimately changes
# (a fix: commit); never on a tree with a change under test.
cd /verif && bin/govc locals > /tmp/locals.$$.json && jq -S -s '.[0] * .[1]' /tmp/locals.$$.json enginetest/locals_extra.json > specs/locals.json; rm -f /tmp/locals.$$.json
jq 'keys|length' specs/locals.json
