#!/bin/bash
# benign1.sh <ID-n>: one benign refactoring on a scratch copy of /repo (does not touch /repo or /verif/evidence)
s=$1; p=${s%-*}; here=/verif
scratch=$(mktemp -d /tmp/verif-benign.XXXXXX)
rsync -a --exclude .git /repo/ "$scratch/repo/"
if ! (cd "$scratch/repo" && patch -p1 -s --no-backup-if-mismatch < $here/benign/$s/patch.diff >/dev/null 2>&1); then
  echo "BENIGN-ERROR $s: patch does not apply"; rm -rf "$scratch"; exit 0
fi
out=$("$here/bin/govc" -repo "$scratch/repo" -specs "$here/specs" -evdir "$scratch/ev" check "$p" quick 2>&1 | tail -1)
rm -rf "$scratch"
case "$out" in
  *" 0 violations"*) if grep -qx "$s" $here/benign/STILL_ALARMING.txt; then echo "benign ok   $s (was listed as alarming: remove it from STILL_ALARMING.txt)"; else echo "benign ok   $s"; fi;;
  *) if grep -qx "$s" $here/benign/STILL_ALARMING.txt; then echo "benign known-alarm $s: $out"; else echo "BENIGN-ALARM $s: $out"; fi;;
esac
