// Package zzengine holds small functions used only to test the VC generator itself
// (tools/enginetest.sh copies this directory into a scratch copy of the module).
// okXxx functions must verify completely; badXxx functions carry a contract that is
// false for some input and must have at least one undischarged obligation.
package zzengine

type T struct {
	x, y int
	s    []int
	m    map[string]int
	next *T
}

var counter int

// ---- aliasing of pointers ----
func okPtr(p *T) { p.x = 1 }
func badPtrAlias(p, q *T) {
	p.x = 1
	q.x = 2
}
func okPtrDistinct(p, q *T) {
	p.x = 1
	q.x = 2
}

// ---- struct copies ----
func okCopy(q *T) int {
	p := *q
	p.x = 7
	return p.x
}
func badCopy(q *T) {
	p := *q
	p.x = 7
}

// ---- slices sharing a backing array ----
func badSubslice(a []int) {
	b := a[1:3]
	b[0] = 5
}
func okSubslice(a []int) {
	b := a[1:3]
	b[0] = 5
}
func badAppendAlias(a []int, v int) []int {
	b := append(a, v)
	if len(a) > 0 {
		a[0] = 9
	}
	return b
}
func okAppend(a []int, v int) []int {
	return append(a, v)
}
func badIndex(s string, i int) byte { return s[i] }
func okIndex(s string, i int) byte {
	if i >= 0 && i < len(s) {
		return s[i]
	}
	return 0
}

// ---- maps ----
func badNilMap(m map[string]int) { m["a"] = 1 }
func okMap(m map[string]int) { m["a"] = 1 }
func badMapOther(m map[string]int) { m["a"] = 1 }

// ---- loops ----
func badLoopFrame(a []int) {
	for i := range a {
		a[i] = 0
	}
}
func okLoopZero(a []int) {
	for i := range a {
		a[i] = 0
	}
}
func badLoopInv(n int) int {
	s := 0
	for i := 0; i < n; i++ {
		s += 2
	}
	return s
}
func okLoopSum(n int) int {
	s := 0
	for i := 0; i < n; i++ {
		s += 2
	}
	return s
}

// ---- calls ----
func bump(p *T) { p.x++ }
func badCallFrame(p *T) {
	bump(p)
}
func okCallFrame(p *T) {
	bump(p)
}
func badUnknownCallee(p *T, f func()) {
	p.x = 1
	f()
}
func okKnownCallee(p *T, f func()) {
	p.x = 1
	f()
}
func setGlobal() { counter = 5 }
func badGlobal() {
	counter = 1
	setGlobal()
}

// ---- closures ----
func badClosure() int {
	x := 1
	f := func() { x = 2 }
	f()
	return x
}
func okClosure() int {
	x := 1
	f := func() { x = 2 }
	f()
	return x
}

// ---- defers ----
func badDefer(p *T) {
	defer func() { p.x = 3 }()
	p.x = 1
}
func okDefer(p *T) {
	defer func() { p.x = 3 }()
	p.x = 1
}

// ---- ghost state in loops (call-site ghost assignments) ----
func mark(i int) {}
func badGhostLoop(n int) {
	for i := 0; i < n; i++ {
		mark(i)
	}
	mark(-1)
}
func okGhostLoop(n int) {
	for i := 0; i < n; i++ {
		mark(i)
	}
	mark(-1)
}

// ---- interfaces ----
type I interface{ M() int }
type A struct{ v int }
type B struct{ v int }

func (a *A) M() int { return a.v }
func (b *B) M() int { return b.v }
func badAssert(i I) int { return i.(*A).v }
func okAssert(i I) int {
	if a, ok := i.(*A); ok && a != nil {
		return a.v
	}
	return 0
}

// ---- range copies ----
func badRangeCopy(ts []T) {
	for _, t := range ts {
		t.x = 1
	}
}

// ---- reassigned names ----
func badReassign(n int) int {
	n = n + 1
	return n
}
func okReassign(n int) int {
	n = n + 1
	return n
}

// ---- integer division / nil deref ----
func badNilDeref(p *T) int { return p.x }
func badDiv(a, b int) int { return a / b }
func okDiv(a, b int) int {
	if b == 0 {
		return 0
	}
	return a / b
}

// ---- second batch ----
func badNewFrame(p *T) *T {
	q := &T{}
	p.y = 4
	return q
}
func okNewFrame(p *T) *T {
	q := &T{}
	q.y = 4
	return q
}
func badByteWrap(b byte) byte { return b + 1 }
func okByteWrap(b byte) byte { return b + 1 }
func stop() { panic("stop") }
func badNoReturn(c bool) {
	if c {
		stop()
	}
}
func okNoReturn() { stop() }
func badMapRange(m map[string]int) int {
	n := 0
	for _, v := range m {
		n += v
	}
	return n
}
func badConcat(a, b string) string { return a + b }
func okConcat(a, b string) string { return a + b }
func badAfter(a []int, v int) int {
	for i, x := range a {
		if x == v {
			return i
		}
	}
	return -1
}
func okAfter(a []int, v int) int {
	r := -1
	for i, x := range a {
		if x == v {
			r = i
			break
		}
	}
	return r
}
func badDeferOrder(p *T) {
	defer bump(p)
	p.x = 0
}
func badRecv(c chan int) int { return <-c }
func fact(n int) int {
	if n <= 0 {
		return 1
	}
	return n * fact(n-1)
}
func badNested(p *T) {
	p.next.x = 1
}
func okNested(p *T) {
	p.next.x = 1
}
func badSliceField(p *T, q *T) {
	p.s[0] = 1
}
func okSliceField(p *T, q *T) {
	p.s[0] = 1
}
func badResultNames(a int) (x, y int) { return a, a + 1 }
func badHistory(p *T) { record(p) }
func record(p *T) {}
func okShortCircuit(p *T) bool { return p != nil && p.x > 0 }
func badShortCircuit(p *T) bool { return p != nil || p.x > 0 }
func badSwitch(k int) int {
	switch {
	case k < 0:
		return -1
	case k == 0:
		return 0
	}
	return 2
}

// ---- helpers executed in place of their call (no contract) ----
func hAdd(x int) int {
	if x > 10 {
		return x
	}
	return x + 1
}
func okInline(x int) int  { return hAdd(x) }
func badInline(x int) int { return hAdd(x) }
func hStore(p *int)       { *p = 5 }
func okInlineStore() int {
	var v int
	hStore(&v)
	return v
}
func badInlineStore() int {
	var v int
	hStore(&v)
	return v
}
func hField(p *T) { p.x = 7 }
func okInlineFrame(p *T, q *T) int {
	hField(p)
	return q.x
}
func badInlineFrame(p *T, q *T) int {
	hField(p)
	return q.x
}
func hTwo(a int) (int, bool) {
	if a < 0 {
		return 0, false
	}
	return a, true
}
func okInlineTuple(a int) int {
	v, ok := hTwo(a)
	if !ok {
		return -1
	}
	return v
}
func badInlineTuple(a int) int {
	v, ok := hTwo(a)
	if !ok {
		return -1
	}
	return v
}
func okInlineLoop(n int) int {
	s := 0
	for i := 0; i < n; i++ {
		s = hAdd(s)
	}
	return s
}
func badInlineLoop(p *T, n int) int {
	for i := 0; i < n; i++ {
		hField(p)
	}
	return p.x
}
func hRec(n int) int {
	if n <= 0 {
		return 0
	}
	return hRec(n-1) + 1
}
func badInlineRec(n int) int { return hRec(n) }
func okRenamed(data []byte) int {
	pos := 0
	for pos < len(data) {
		pos++
	}
	return pos
}
func okLenientImpl(a int) (f func() int, err error) {
	if a < 0 {
		return nil, errNeg
	}
	v := a
	return func() int { return v }, nil
}

var errNeg = errString("neg")

type errString string

func (e errString) Error() string { return string(e) }

func okOldParam(n int) int {
	if n > 3 {
		n = 3
	}
	return n
}
func badOldParam(n int) int {
	if n > 3 {
		n = 3
	}
	return n
}

// a variable that is dead at the loop head (assigned in the loop before any read, overwritten
// after it) has no phi there: a clause naming it must not be evaluated on its pre-loop value
func badStaleDeadVar(xs []int) int {
	c := 7
	n := 0
	for i := 0; i < len(xs); i++ {
		c = xs[i]
		n++
	}
	c = 0
	return n + c
}
func okLiveVarInLoop(xs []int) int {
	c := 7
	n := 0
	for i := 0; i < len(xs); i++ {
		if c == 7 {
			n++
		}
		c = 7
	}
	return n + c
}
