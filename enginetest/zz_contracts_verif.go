//go:build verif

package zzengine

//@ func okPtr
//@   requires p != nil
//@   modifies F_S_zzengine_T_x
//@   ensures p.x == 1
//@ func badPtrAlias
//@   requires p != nil && q != nil
//@   modifies F_S_zzengine_T_x
//@   ensures p.x == 1
//@ func okPtrDistinct
//@   requires p != nil && q != nil && p != q
//@   modifies F_S_zzengine_T_x
//@   ensures p.x == 1 && q.x == 2

//@ func okCopy
//@   requires q != nil
//@   modifies nothing
//@   ensures result == 7 && q.x == old(q.x)
//@ func badCopy
//@   requires q != nil
//@   ensures q.x == 7

//@ func badSubslice
//@   requires len(a) >= 3
//@   modifies bytes
//@   ensures at(a, lo(a)+1) == old(at(a, lo(a)+1))
//@ func okSubslice
//@   requires len(a) >= 3
//@   modifies bytes
//@   ensures at(a, lo(a)+1) == 5 && at(a, lo(a)) == old(at(a, lo(a)))
//@ func badAppendAlias
//@   modifies bytes
//@   ensures len(a) > 0 ==> at(result, lo(result)) == old(at(a, lo(a)))
//@ func okAppend
//@   modifies bytes
//@   ensures len(result) == len(a) + 1 && at(result, hi(result)-1) == v
//@ func badIndex
//@   requires i >= 0 && i <= len(s)
//@ func okIndex

//@ func badNilMap
//@ func okMap
//@   requires m != nil
//@   modifies M*
//@   ensures mapkeys(m)["a"] && mapvals(m)["a"] == 1
//@ func badMapOther
//@   requires m != nil
//@   modifies M*
//@   ensures mapvals(m)["b"] == 1

//@ func badLoopFrame
//@   modifies bytes
//@   loop 1: invariant -1 <= rangeindex
//@   ensures len(a) > 0 ==> at(a, lo(a)) == old(at(a, lo(a)))
//@ func okLoopZero
//@   modifies bytes
//@   loop 1: invariant -1 <= rangeindex && rangeindex < len(a) && forall K {at(a,K)} :: lo(a) <= K && K <= lo(a) + rangeindex ==> at(a,K) == 0
//@   ensures forall K {at(a,K)} :: lo(a) <= K && K < hi(a) ==> at(a,K) == 0
//@ func badLoopInv
//@   requires n >= 0
//@   loop 1: invariant s == i
//@ func okLoopSum
//@   requires n >= 0
//@   loop 1: invariant s == 2*i && 0 <= i && i <= n
//@   ensures result == 2*n

//@ func bump
//@   requires p != nil
//@   modifies F_S_zzengine_T_x
//@   ensures p.x == old(p.x) + 1
//@ func badCallFrame
//@   requires p != nil
//@   modifies F_S_zzengine_T_x
//@   ensures p.x == old(p.x)
//@ func okCallFrame
//@   requires p != nil
//@   modifies F_S_zzengine_T_x
//@   ensures p.x == old(p.x) + 1 && p.y == old(p.y)
//@ func badUnknownCallee
//@   requires p != nil
//@   ensures p.x == 1
//@ func okKnownCallee
//@   requires p != nil
//@   callee f(): pure
//@   ensures p.x == 1
//@ func setGlobal
//@   modifies G_zzengine_counter
//@ func badGlobal
//@   modifies G_zzengine_counter
//@   ensures G_zzengine_counter == 1

//@ func badClosure
//@   ensures result == 1
//@ func badClosure$1
//@   modifies C_Int
//@ func okClosure
//@   ensures result == 2
//@ func okClosure$1
//@   modifies C_Int
//@   ensures x == 2

//@ func badDefer
//@   requires p != nil
//@   modifies F_S_zzengine_T_x
//@   ensures p.x == 1
//@ func badDefer$1
//@   requires p != nil
//@   modifies F_S_zzengine_T_x
//@   ensures p.x == 3
//@ func okDefer
//@   requires p != nil
//@   modifies F_S_zzengine_T_x
//@   ensures p.x == 3
//@ func okDefer$1
//@   requires p != nil
//@   modifies F_S_zzengine_T_x
//@   ensures p.x == 3

//@ ghost var egSeen (Array Int Bool)
//@ ghost var egInit Bool
//@ func mark
//@   pure
//@ func badGhostLoop
//@   requires n >= 1
//@   modifies egSeen
//@   at call zzengine.mark#1: ghost egSeen[i] = true
//@   at call zzengine.mark#2: requires !egSeen[0]
//@ func okGhostLoop
//@   requires n >= 1
//@   modifies egSeen
//@   at call zzengine.mark#1: ghost egSeen[i] = true
//@   at call zzengine.mark#2: requires true
//@   loop 1: invariant 0 <= i

//@ func badAssert
//@   requires i != nil
//@ func okAssert

//@ func badRangeCopy
//@   modifies H_S_zzengine_T
//@   loop 1: invariant -1 <= rangeindex
//@   ensures len(ts) > 0 ==> at(ts, lo(ts)).x == 1

//@ func badReassign
//@   ensures result == n
//@ func okReassign
//@   ensures result == old(n) + 1

//@ func badNilDeref
//@ func badDiv
//@ func okDiv

//@ func badNewFrame
//@   requires p != nil
//@   modifies new F_S_zzengine_T_*
//@ func okNewFrame
//@   requires p != nil
//@   modifies new F_S_zzengine_T_*
//@   ensures result != nil && fresh(result) && result.y == 4 && p.y == old(p.y)
//@ func badByteWrap
//@   ensures result == b + 1
//@ func okByteWrap
//@   ensures b < 255 ==> result == b + 1
//@   ensures b == 255 ==> result == 0
//@ func stop
//@   noreturn
//@ func badNoReturn
//@   noreturn
//@ func okNoReturn
//@   noreturn
//@ func badMapRange
//@   requires m != nil
//@   loop 1: invariant n >= 0
//@ func badConcat
//@   ensures len(result) == len(a)
//@ func okConcat
//@   ensures len(result) == len(a) + len(b)
//@   ensures len(a) > 0 ==> at(result, lo(result)) == at(a, lo(a))
//@ func badAfter
//@   loop 1: invariant -1 <= rangeindex && rangeindex < len(a)
//@   ensures result >= 0
//@ func okAfter
//@   loop 1: invariant -1 <= rangeindex && rangeindex < len(a) && r == -1 && forall K {at(a,K)} :: lo(a) <= K && K <= lo(a) + rangeindex ==> at(a,K) != v
//@   loop 1: after r < 0 ==> forall K {at(a,K)} :: lo(a) <= K && K < hi(a) ==> at(a,K) != v
//@   loop 1: after r >= 0 ==> r < len(a) && at(a, lo(a) + r) == v
//@   ensures result >= 0 ==> result < len(a) && at(a, lo(a) + result) == v
//@   ensures result < 0 ==> forall K {at(a,K)} :: lo(a) <= K && K < hi(a) ==> at(a,K) != v
//@ func badDeferOrder
//@   requires p != nil
//@   modifies F_S_zzengine_T_x
//@   ensures p.x == 0
//@ func badRecv
//@   ensures result == 0
//@ func fact
//@   ensures result >= 1
//@ func badNested
//@   requires p != nil
//@ func okNested
//@   requires p != nil && p.next != nil
//@   modifies F_S_zzengine_T_x
//@   ensures p.next.x == 1
//@ func badSliceField
//@   requires p != nil && q != nil && len(p.s) > 0 && len(q.s) > 0
//@   modifies bytes
//@   ensures at(q.s, lo(q.s)) == old(at(q.s, lo(q.s)))
//@ func okSliceField
//@   requires p != nil && q != nil && len(p.s) > 0 && len(q.s) > 0 && objOf(p.s) != objOf(q.s)
//@   modifies bytes
//@   ensures at(q.s, lo(q.s)) == old(at(q.s, lo(q.s))) && at(p.s, lo(p.s)) == 1
//@ func badResultNames
//@   ensures y == a
//@ ghost history var egHist Bool
//@ func record
//@   modifies egHist
//@   ensures egHist
//@ func badHistory
//@   requires p != nil
//@   modifies nothing
//@ func okShortCircuit
//@ func badShortCircuit
//@ func badSwitch
//@   ensures result <= 0
//@ func okInline
//@   ensures result >= x
//@ func badInline
//@   ensures result > x
//@ func okInlineStore
//@   ensures result == 5
//@ func badInlineStore
//@   ensures result == 6
//@ func okInlineFrame
//@   requires p != nil && q != nil && p != q
//@   modifies F_S_zzengine_T_x
//@   ensures result == old(q.x) && p.x == 7
//@ func badInlineFrame
//@   requires p != nil && q != nil
//@   modifies F_S_zzengine_T_x
//@   ensures result == old(q.x)
//@ func okInlineTuple
//@   ensures a >= 0 ==> result == a
//@   ensures a < 0 ==> result == -1
//@ func badInlineTuple
//@   ensures result == a
//@ func okInlineLoop
//@   loop 1: invariant 0 <= s
//@   ensures result >= 0
//@ func badInlineLoop
//@   requires p != nil
//@   modifies F_S_zzengine_T_x
//@   loop 1: invariant p.x == old(p.x)
//@   ensures result == old(p.x)
//@ func badInlineRec
//@   ensures result >= 0
//@ func okRenamed
//@   loop 1: invariant 0 <= i && i <= len(data)
//@   ensures result == len(data)
//@ func okLenientImpl
//@   ensures err == nil ==> capturedVar(f, "v") == a
//@   ensures a >= 0 ==> err == nil
//@ func okOldParam
//@   ensures result <= old(n) && (old(n) <= 3 ==> result == old(n))
//@ func badOldParam
//@   ensures result == old(n)
//@ func badStaleDeadVar
//@   loop 1: invariant 0 <= i && i <= len(xs) && n == i && (n == 0 || c == xs[i-1])
//@   loop 1: after n == 0 || xs[n-1] == 7
//@   ensures result == len(xs)
//@ func okLiveVarInLoop
//@   loop 1: invariant 0 <= i && i <= len(xs) && n == i && c == 7
//@   loop 1: after c == 7
//@   ensures result == len(xs) + 7
