package testscript

import (
	"context"
	"fmt"
	"os/exec"
	"strings"
	"testing"
)

// TestVerifBoundedWaitOne: bounded stand-in for waitBackgroundOne, which hands pointers
// into the background slice between functions (outside the modelled subset): for every
// list of up to 4 background entries with names drawn from {"", "a", "b", "c"} (non-empty
// names distinct) and every named entry as the target, waiting for that name removes
// exactly that entry, keeps all others in order, and has received from its wait channel.
func TestVerifBoundedWaitOne(t *testing.T) {
	if _, err := exec.LookPath("true"); err != nil {
		fmt.Printf("VERIF-BOUNDED: name=WaitOne bound=0 cases=0 nontrivial=0 failures=0 first=%q\n", "skipped: no `true` program")
		return
	}
	n := verifBound(3, 4)
	names := []string{"", "a", "b", "c"}
	cases, nontrivial, fails := 0, 0, 0
	first := ""
	var rec func(cur []string)
	rec = func(cur []string) {
		for ti, target := range cur {
			if target == "" {
				continue
			}
			cases++
			if len(cur) > 1 {
				nontrivial++
			}
			ts := &TestScript{ctxt: context.Background()}
			var cmds []*exec.Cmd
			var waits []chan struct{}
			for _, nm := range cur {
				cmd := exec.Command("true")
				cmd.Stdout = &strings.Builder{}
				cmd.Stderr = &strings.Builder{}
				if err := cmd.Start(); err != nil {
					t.Fatal(err)
				}
				wait := make(chan struct{})
				go func() { cmd.Wait(); close(wait) }()
				ts.background = append(ts.background, backgroundCmd{nm, cmd, wait, false})
				cmds = append(cmds, cmd)
				waits = append(waits, wait)
			}
			msg := ""
			func() {
				defer func() {
					if r := recover(); r != nil {
						msg = fmt.Sprintf("panic: %v", r)
					}
				}()
				ts.waitBackgroundOne(target)
			}()
			if msg == "" {
				var want []*exec.Cmd
				for i, c := range cmds {
					if i != ti {
						want = append(want, c)
					}
				}
				if len(ts.background) != len(want) {
					msg = fmt.Sprintf("%d entries left, want %d", len(ts.background), len(want))
				} else {
					for i := range want {
						if ts.background[i].cmd != want[i] {
							msg = fmt.Sprintf("entry %d is not the expected command", i)
						}
					}
				}
				if msg == "" && cmds[ti].ProcessState == nil {
					msg = "returned before the process was waited for"
				}
			}
			// do not leak the other processes
			for _, w := range waits {
				<-w
			}
			if msg != "" {
				fails++
				if first == "" {
					first = fmt.Sprintf("waitBackgroundOne(%q) on %q: %s", target, cur, msg)
				}
			}
		}
		if len(cur) == n {
			return
		}
		for _, nm := range names {
			dup := false
			for _, c := range cur {
				if nm != "" && c == nm {
					dup = true
				}
			}
			if !dup {
				rec(append(append([]string(nil), cur...), nm))
			}
		}
	}
	rec(nil)
	fmt.Printf("VERIF-BOUNDED: name=WaitOne bound=%d cases=%d nontrivial=%d failures=%d first=%q\n", n, cases, nontrivial, fails, first)
}

// TestVerifBoundedWaitVerdict: bounded stand-in for the verdict of `wait name` (waitBackgroundOne
// is outside the modelled subset): for the named background command being `true` or `false`,
// started with or without `!`, alone or next to another entry, waiting for it by name fails the
// script (Fatalf) exactly when the command's outcome contradicts its polarity.
func TestVerifBoundedWaitVerdict(t *testing.T) {
	_, e1 := exec.LookPath("true")
	_, e2 := exec.LookPath("false")
	if e1 != nil || e2 != nil {
		fmt.Printf("VERIF-BOUNDED: name=WaitVerdict bound=0 cases=0 nontrivial=0 failures=0 first=%q\n", "skipped: no `true`/`false` programs")
		return
	}
	cases, nontrivial, fails := 0, 0, 0
	first := ""
	for _, prog := range []string{"true", "false"} {
		for _, neg := range []bool{false, true} {
			for _, others := range [][]string{nil, {"true"}, {"false"}, {"false", "true"}} {
				for pos := 0; pos <= len(others); pos++ {
					cases++
					nontrivial++
					ts := &TestScript{ctxt: context.Background()}
					var waits []chan struct{}
					add := func(name, p string, n bool) {
						cmd := exec.Command(p)
						cmd.Stdout = &strings.Builder{}
						cmd.Stderr = &strings.Builder{}
						if err := cmd.Start(); err != nil {
							t.Fatal(err)
						}
						wait := make(chan struct{})
						go func() { cmd.Wait(); close(wait) }()
						ts.background = append(ts.background, backgroundCmd{name, cmd, wait, n})
						waits = append(waits, wait)
					}
					for i := 0; i <= len(others); i++ {
						if i == pos {
							add("x", prog, neg)
						}
						if i < len(others) {
							add("", others[i], false)
						}
					}
					failed := false
					func() {
						defer func() {
							if r := recover(); r != nil {
								if r == failNow {
									failed = true
								} else {
									panic(r)
								}
							}
						}()
						ts.waitBackgroundOne("x")
					}()
					for _, w := range waits {
						<-w
					}
					want := (prog == "true") == neg // success with !, or failure without it
					if failed != want {
						fails++
						if first == "" {
							first = fmt.Sprintf("wait x: command %q started with neg=%v next to %q (position %d): script failed=%v, want %v", prog, neg, others, pos, failed, want)
						}
					}
				}
			}
		}
	}
	fmt.Printf("VERIF-BOUNDED: name=WaitVerdict bound=3 cases=%d nontrivial=%d failures=%d first=%q\n", cases, nontrivial, fails, first)
}
