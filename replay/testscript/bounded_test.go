package testscript

// Bounded stand-ins for testscript properties (labelled bounded; never counted as proved).

import (
	"fmt"
	"os"
	"strings"
	"testing"
)

func verifBound(quick, thorough int) int {
	if os.Getenv("VERIF_TIER") == "thorough" {
		return thorough
	}
	return quick
}

// refTokenize: the line splitting rules of property C02, written from its text:
// words are split at unquoted space / tab (CR counts as a blank, as in CRLF scripts),
// text in single quotes is literal with '' meaning one quote, an unquoted # ends the
// line, and outside quotes $NAME / ${NAME} are replaced by the value without
// re-splitting or re-expanding. ok is false for an unterminated quote.
func refTokenize(line string, env map[string]string) (words []string, ok bool) {
	var cur strings.Builder
	inWord := false
	i := 0
	for i < len(line) {
		c := line[i]
		switch {
		case c == ' ' || c == '\t' || c == '\r':
			if inWord {
				words = append(words, cur.String())
				cur.Reset()
				inWord = false
			}
			i++
		case c == '#':
			if inWord {
				words = append(words, cur.String())
			}
			return words, true
		case c == '\'':
			inWord = true
			i++
			for {
				if i >= len(line) {
					return nil, false
				}
				if line[i] == '\'' {
					if i+1 < len(line) && line[i+1] == '\'' {
						cur.WriteByte('\'')
						i += 2
						continue
					}
					i++
					break
				}
				cur.WriteByte(line[i])
				i++
			}
		case c == '$' && i+1 < len(line) && line[i+1] == '{':
			j := strings.IndexByte(line[i:], '}')
			inWord = true
			cur.WriteString(env[line[i+2:i+j]])
			i += j + 1
		case c == '$' && i+1 < len(line) && isNameByte(line[i+1]):
			// $NAME: the name is the longest run of letters, digits and underscores
			j := i + 1
			for j < len(line) && isNameByte(line[j]) {
				j++
			}
			inWord = true
			cur.WriteString(env[line[i+1:j]])
			i = j
		default:
			inWord = true
			cur.WriteByte(c)
			i++
		}
	}
	if inWord {
		words = append(words, cur.String())
	}
	return words, true
}

func isNameByte(c byte) bool {
	return c == '_' || '0' <= c && c <= '9' || 'a' <= c && c <= 'z' || 'A' <= c && c <= 'Z'
}

func TestVerifBoundedTokenizer(t *testing.T) {
	n := verifBound(5, 7)
	env := map[string]string{"a": "x y", "b": "$a'q"}
	tokens := []string{"w", " ", "\t", "'", "''", "$a", "${b}", "#", "\r", "-", "\u00e0", "\f", "\u00a0"}
	cases, nontrivial, fails := 0, 0, 0
	first := ""
	var rec func(k int, cur string)
	rec = func(k int, cur string) {
		cases++
		want, ok := refTokenize(cur, env)
		var got []string
		failed := false
		func() {
			defer func() {
				if r := recover(); r != nil {
					failed = true
				}
			}()
			ts := &TestScript{envMap: map[string]string{}}
			for k, v := range env {
				ts.envMap[k] = v
			}
			got = ts.parse(cur)
		}()
		if len(want) > 1 {
			nontrivial++
		}
		bad := failed == ok
		if !bad && ok {
			bad = len(got) != len(want)
			for i := 0; !bad && i < len(want); i++ {
				bad = got[i] != want[i]
			}
		}
		if bad {
			fails++
			if first == "" {
				first = fmt.Sprintf("parse(%q) = %q (failed=%v), reference %q (ok=%v)", cur, got, failed, want, ok)
			}
		}
		if k == n {
			return
		}
		for _, tk := range tokens {
			rec(k+1, cur+tk)
		}
	}
	rec(0, "")
	fmt.Printf("VERIF-BOUNDED: name=Tokenizer bound=%d cases=%d nontrivial=%d failures=%d first=%q\n", n, cases, nontrivial, fails, first)
}
