package diff

// Bounded stand-in for C08 (labelled bounded; never counted as proved): exhaustive
// over pairs of short line sequences, with and without final newline.

import (
	"bytes"
	"fmt"
	"os"
	"regexp"
	"strconv"
	"strings"
	"testing"
)

func verifBound(quick, thorough int) int {
	if os.Getenv("VERIF_TIER") == "thorough" {
		return thorough
	}
	return quick
}

var verifHunkRE = regexp.MustCompile(`^@@ -(\d+),(\d+) \+(\d+),(\d+) @@$`)

// verifSplit splits a text into lines, marking a missing final newline as diff does.
func verifSplit(s string) []string {
	if s == "" {
		return nil
	}
	l := strings.SplitAfter(s, "\n")
	if l[len(l)-1] == "" {
		return l[:len(l)-1]
	}
	l[len(l)-1] += "\n\\ No newline at end of file\n"
	return l
}

// verifCheckDiff validates a unified diff of a -> b: header, hunks in order and
// non-overlapping, counts matching bodies, and applying it to a gives b (and in
// reverse gives a). It returns a description of the first problem, or "".
func verifCheckDiff(a, b string, d []byte) string {
	if a == b {
		if d != nil {
			return "non-nil diff for identical texts"
		}
		return ""
	}
	if d == nil {
		return "nil diff for different texts"
	}
	out := string(d)
	if !strings.HasSuffix(out, "\n") {
		return "diff does not end in a newline"
	}
	// re-join the "\ No newline" continuation with its line
	raw := strings.SplitAfter(out, "\n")
	raw = raw[:len(raw)-1]
	var ls []string
	for _, l := range raw {
		if strings.HasPrefix(l, "\\ No newline") && len(ls) > 0 {
			ls[len(ls)-1] += l
			continue
		}
		ls = append(ls, l)
	}
	if len(ls) < 3 || ls[0] != "diff a b\n" || ls[1] != "--- a\n" || ls[2] != "+++ b\n" {
		return "bad header"
	}
	x, y := verifSplit(a), verifSplit(b)
	var gotY, gotX []string
	px, py := 0, 0 // lines of x / y consumed so far
	i := 3
	for i < len(ls) {
		m := verifHunkRE.FindStringSubmatch(strings.TrimSuffix(ls[i], "\n"))
		if m == nil {
			return fmt.Sprintf("expected hunk header, got %q", ls[i])
		}
		sx, _ := strconv.Atoi(m[1])
		cx, _ := strconv.Atoi(m[2])
		sy, _ := strconv.Atoi(m[3])
		cy, _ := strconv.Atoi(m[4])
		// 1-indexed starts; an empty side shows its start as the line before (0 for an empty file)
		bx, by := sx-1, sy-1
		if cx == 0 {
			bx = sx
		}
		if cy == 0 {
			by = sy
		}
		if bx < px || by < py {
			return fmt.Sprintf("hunk %q overlaps or is out of order", ls[i])
		}
		if bx > len(x) || by > len(y) {
			return fmt.Sprintf("hunk %q starts beyond the text", ls[i])
		}
		// unchanged text between hunks
		if bx-px != by-py {
			return fmt.Sprintf("hunk %q: skipped %d old but %d new lines", ls[i], bx-px, by-py)
		}
		gotY = append(gotY, x[px:bx]...)
		gotX = append(gotX, y[py:by]...)
		px, py = bx, by
		i++
		nx, ny := 0, 0
		for i < len(ls) && !strings.HasPrefix(ls[i], "@@") {
			l := ls[i]
			if l == "" {
				return "empty diff line"
			}
			switch l[0] {
			case ' ':
				if px+nx >= len(x) || py+ny >= len(y) || x[px+nx] != l[1:] || y[py+ny] != l[1:] {
					return fmt.Sprintf("context line %q does not match both texts", l)
				}
				gotY = append(gotY, l[1:])
				gotX = append(gotX, l[1:])
				nx++
				ny++
			case '-':
				if px+nx >= len(x) || x[px+nx] != l[1:] {
					return fmt.Sprintf("removed line %q is not the old text's line", l)
				}
				gotX = append(gotX, l[1:])
				nx++
			case '+':
				if py+ny >= len(y) || y[py+ny] != l[1:] {
					return fmt.Sprintf("added line %q is not the new text's line", l)
				}
				gotY = append(gotY, l[1:])
				ny++
			default:
				return fmt.Sprintf("bad line prefix in %q", l)
			}
			i++
		}
		if nx != cx || ny != cy {
			return fmt.Sprintf("hunk counts -%d +%d but body has -%d +%d", cx, cy, nx, ny)
		}
		px += nx
		py += ny
	}
	if len(x)-px != len(y)-py {
		return "texts differ after the last hunk"
	}
	gotY = append(gotY, x[px:]...)
	gotX = append(gotX, y[py:]...)
	if strings.Join(gotY, "") != strings.Join(y, "") {
		return "applying the diff to the old text does not give the new text"
	}
	if strings.Join(gotX, "") != strings.Join(x, "") {
		return "applying the diff in reverse does not give the old text"
	}
	return ""
}

func TestVerifBoundedDiff(t *testing.T) {
	n := verifBound(4, 5)
	alphabet := []string{"a\n", "b\n", "c\n", "+x\n", "@@ -1,1 +1,1 @@\n"}
	var texts []string
	var rec func(k int, cur string)
	rec = func(k int, cur string) {
		texts = append(texts, cur)
		if cur != "" {
			texts = append(texts, strings.TrimSuffix(cur, "\n")) // no final newline
		}
		if k == n {
			return
		}
		for _, l := range alphabet[:3+min(k, 2)] {
			rec(k+1, cur+l)
		}
	}
	rec(0, "")
	// a second, small family with carriage returns inside lines (CRLF against LF texts)
	var crTexts []string
	var rec2 func(k int, cur string)
	rec2 = func(k int, cur string) {
		crTexts = append(crTexts, cur)
		if cur != "" {
			crTexts = append(crTexts, strings.TrimSuffix(cur, "\n"))
		}
		if k == 3 {
			return
		}
		for _, l := range []string{"a\n", "a\r\n", "b\r\n"} {
			rec2(k+1, cur+l)
		}
	}
	rec2(0, "")
	cases, nontrivial, fails := 0, 0, 0
	first := ""
	for _, a := range crTexts {
		for _, b := range crTexts {
			cases++
			d, pmsg := verifDiffNoPanic(a, b)
			if a != b {
				nontrivial++
			}
			if pmsg == "" {
				pmsg = verifCheckDiff(a, b, d)
			}
			if pmsg != "" {
				fails++
				if first == "" {
					first = fmt.Sprintf("Diff(%q, %q): %s; output %q", a, b, pmsg, d)
				}
			}
		}
	}
	for _, a := range texts {
		for _, b := range texts {
			cases++
			d, pmsg := verifDiffNoPanic(a, b)
			if a != b {
				nontrivial++
			}
			if pmsg != "" {
				fails++
				if first == "" {
					first = fmt.Sprintf("Diff(%q, %q): %s", a, b, pmsg)
				}
				continue
			}
			if msg := verifCheckDiff(a, b, d); msg != "" {
				fails++
				if first == "" {
					first = fmt.Sprintf("Diff(%q, %q): %s; output %q", a, b, msg, d)
				}
			}
			// tgs contract on the same inputs
			if msg := verifCheckTgs(lines([]byte(a)), lines([]byte(b))); msg != "" && a != "" && b != "" {
				fails++
				if first == "" {
					first = fmt.Sprintf("tgs(%q, %q): %s", a, b, msg)
				}
			}
		}
	}
	_ = bytes.Equal
	fmt.Printf("VERIF-BOUNDED: name=Diff bound=%d cases=%d nontrivial=%d failures=%d first=%q\n", n, cases, nontrivial, fails, first)
}

// verifCheckTgs: the anchors start with {0,0}, end with {len x, len y}, increase
// strictly in both coordinates in between, and every interior pair matches a line
// that occurs exactly once in x and once in y.
func verifCheckTgs(x, y []string) string {
	seq := tgs(x, y)
	if len(seq) < 2 || seq[0] != (pair{0, 0}) || seq[len(seq)-1] != (pair{len(x), len(y)}) {
		return "missing sentinels"
	}
	cnt := func(l []string, s string) int {
		c := 0
		for _, t := range l {
			if t == s {
				c++
			}
		}
		return c
	}
	for i := 1; i < len(seq)-1; i++ {
		p := seq[i]
		if p.x < 0 || p.x >= len(x) || p.y < 0 || p.y >= len(y) || x[p.x] != y[p.y] {
			return fmt.Sprintf("pair %v does not match equal lines", p)
		}
		if cnt(x, x[p.x]) != 1 || cnt(y, y[p.y]) != 1 {
			return fmt.Sprintf("pair %v is not a unique line", p)
		}
		if i > 1 && (p.x <= seq[i-1].x || p.y <= seq[i-1].y) {
			return fmt.Sprintf("pairs not strictly increasing at %v", p)
		}
	}
	return ""
}

// TestVerifBoundedDiffGaps: a structured family of longer texts: p unchanged lines, a
// change, g unchanged lines, a second change, s unchanged lines (all lines distinct), for
// every p, s in 0..4, every gap 0..9 (around the hunk-merging threshold of twice the
// context), every pair of change kinds (replace, insert, delete, insert two) and with or
// without a final newline on either side.
func TestVerifBoundedDiffGaps(t *testing.T) {
	maxPS := verifBound(4, 6)
	maxGap := verifBound(9, 12)
	type change struct{ old, new []string }
	kinds := []change{
		{[]string{"o"}, []string{"n"}},
		{nil, []string{"n"}},
		{[]string{"o"}, nil},
		{nil, []string{"n", "m"}},
	}
	cases, nontrivial, fails := 0, 0, 0
	first := ""
	line := func(pfx string, i int) string { return fmt.Sprintf("%s%d\n", pfx, i) }
	for p := 0; p <= maxPS; p++ {
		for g := 0; g <= maxGap; g++ {
			for s := 0; s <= maxPS; s++ {
				for k1, c1 := range kinds {
					for k2, c2 := range kinds {
						var a, b strings.Builder
						for i := 0; i < p; i++ {
							a.WriteString(line("p", i))
							b.WriteString(line("p", i))
						}
						for _, l := range c1.old {
							a.WriteString(l + "1\n")
						}
						for _, l := range c1.new {
							b.WriteString(l + "1\n")
						}
						for i := 0; i < g; i++ {
							a.WriteString(line("g", i))
							b.WriteString(line("g", i))
						}
						for _, l := range c2.old {
							a.WriteString(l + "2\n")
						}
						for _, l := range c2.new {
							b.WriteString(l + "2\n")
						}
						for i := 0; i < s; i++ {
							a.WriteString(line("s", i))
							b.WriteString(line("s", i))
						}
						for nl := 0; nl < 4; nl++ {
							as, bs := a.String(), b.String()
							if nl&1 != 0 {
								as = strings.TrimSuffix(as, "\n")
							}
							if nl&2 != 0 {
								bs = strings.TrimSuffix(bs, "\n")
							}
							cases++
							if as != bs {
								nontrivial++
							}
							d, pmsg := verifDiffNoPanic(as, bs)
							if pmsg != "" {
								fails++
								if first == "" {
									first = fmt.Sprintf("Diff(%q, %q): %s", as, bs, pmsg)
								}
								continue
							}
							if msg := verifCheckDiff(as, bs, d); msg != "" {
								fails++
								if first == "" {
									first = fmt.Sprintf("Diff(%q, %q) [p=%d gap=%d s=%d kinds=%d,%d]: %s; output %q", as, bs, p, g, s, k1, k2, msg, d)
								}
							}
						}
					}
				}
			}
		}
	}
	fmt.Printf("VERIF-BOUNDED: name=DiffGaps bound=%d cases=%d nontrivial=%d failures=%d first=%q\n", maxGap, cases, nontrivial, fails, first)
}

// verifDiffNoPanic runs Diff and turns a run-time panic into a reported failure.
func verifDiffNoPanic(a, b string) (d []byte, msg string) {
	defer func() {
		if r := recover(); r != nil {
			msg = fmt.Sprintf("PANIC: %v", r)
		}
	}()
	return Diff("a", []byte(a), "b", []byte(b)), ""
}
