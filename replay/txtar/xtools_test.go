package txtar

import xtxtar "golang.org/x/tools/txtar"

func xtoolsParse(d []byte) *Archive { return xtxtar.Parse(d) }
