package txtar

// Executable oracles used when a counterexample is replayed on the real code.
// They are written from the property text and the txtar format description,
// independently of the implementation.

import (
	"bytes"
	"fmt"
	"strings"
)

// refLineEnd returns the end of the line starting at p (index of LF, or len).
func refLineEnd(d []byte, p int) int {
	for q := p; q < len(d); q++ {
		if d[q] == '\n' {
			return q
		}
	}
	return len(d)
}

// refMarker reports whether a file marker line starts at p and its name.
// A trailing CR is not part of the line text, at LF or at end of input.
func refMarker(d []byte, p int) (string, bool) {
	e := refLineEnd(d, p)
	line := d[p:e]
	if len(line) > 0 && line[len(line)-1] == '\r' {
		line = line[:len(line)-1]
	}
	if len(line) < 6 || string(line[:3]) != "-- " || string(line[len(line)-3:]) != " --" {
		return "", false
	}
	name := strings.TrimSpace(string(line[3 : len(line)-3]))
	return name, name != ""
}

func refFirstMarker(d []byte) int {
	for p := 0; p < len(d); p++ {
		if p == 0 || d[p-1] == '\n' {
			if _, ok := refMarker(d, p); ok {
				return p
			}
		}
	}
	return -1
}

func verifOracle_isMarker(data []byte, name string, after []byte) string {
	rn, ok := refMarker(data, 0)
	if ok != (name != "") {
		return fmt.Sprintf("ensures1: isMarker(%q) name=%q but marker-at-0=%v", data, name, ok)
	}
	if ok && rn != name {
		return fmt.Sprintf("ensures2: isMarker(%q) name=%q want %q", data, name, rn)
	}
	if ok {
		e := refLineEnd(data, 0)
		if e < len(data) && !bytes.Equal(after, data[e+1:]) {
			return fmt.Sprintf("ensures3: isMarker(%q) after=%q want %q", data, after, data[e+1:])
		}
		if e < len(data) && after == nil {
			return fmt.Sprintf("ensures3: isMarker(%q) after is nil", data)
		}
		if e == len(data) && after != nil {
			return fmt.Sprintf("ensures4: isMarker(%q) after=%q want nil", data, after)
		}
	}
	return ""
}

func verifOracle_NeedsQuote(data []byte, r bool) string {
	if want := refFirstMarker(data) >= 0; want != r {
		return fmt.Sprintf("ensures1: NeedsQuote(%q)=%v but marker-line-present=%v", data, r, want)
	}
	return ""
}

func verifOracle_findFileMarker(data []byte, before []byte, name string, after []byte) string {
	m := refFirstMarker(data)
	if (m >= 0) != (name != "") {
		return fmt.Sprintf("findFileMarker(%q) name=%q but first marker at %d", data, name, m)
	}
	if m >= 0 {
		rn, _ := refMarker(data, m)
		if rn != name || !bytes.Equal(before, data[:m]) {
			return fmt.Sprintf("findFileMarker(%q) = before %q name %q; want before %q name %q", data, before, name, data[:m], rn)
		}
		e := refLineEnd(data, m)
		if e < len(data) && (after == nil || !bytes.Equal(after, data[e+1:])) {
			return fmt.Sprintf("findFileMarker(%q) after=%q want %q", data, after, data[e+1:])
		}
		if e == len(data) && after != nil {
			return fmt.Sprintf("findFileMarker(%q) after=%q want nil", data, after)
		}
		return ""
	}
	want := data
	if len(data) > 0 && data[len(data)-1] != '\n' {
		want = append(append([]byte{}, data...), '\n')
	}
	if !bytes.Equal(before, want) || after != nil {
		return fmt.Sprintf("findFileMarker(%q) = before %q after %q; want before %q after nil", data, before, after, want)
	}
	return ""
}

// verifProbe_Write: directed search over a small dictionary of entry names for a
// violation of C15's containment / error clauses on the real Write (used when the
// verifier has no model to offer: paths are abstract values in the contracts).
func verifProbe_Write() string {
	names := []string{"..", "a/../..", "../x", "/abs", "a/../../b", ".", "", "a//b", "./../x", "a/./..", "x/../../..", "..a", "a/..b"}
	for _, n := range names {
		root, err := mkdirTempVerif()
		if err != nil {
			return ""
		}
		// dir does not exist yet and sits two levels below root, so that an escape is visible inside root
		dir := root + "/p/d"
		before := verifTree(root)
		werr := Write(&Archive{Files: []File{{Name: n, Data: []byte("data\n")}}}, dir)
		after := verifTree(root)
		for p := range after {
			if !before[p] && !(p == dir || strings.HasPrefix(p, dir+"/")) && !after[p+"/"] {
				removeAllVerif(root)
				return fmt.Sprintf("Write(entry %q, dir p/d) created the file %q outside dir (err=%v)", n, strings.TrimPrefix(p, root+"/"), werr)
			}
		}
		removeAllVerif(root)
	}
	return ""
}
