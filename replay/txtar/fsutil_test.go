package txtar

import (
	"os"
	"path/filepath"
)

func mkdirTempVerif() (string, error) { return os.MkdirTemp("", "verif-probe") }
func removeAllVerif(p string)         { os.RemoveAll(p) }

// verifTree returns the set of regular files below root (directories are keyed with a trailing slash).
func verifTree(root string) map[string]bool {
	m := map[string]bool{}
	filepath.Walk(root, func(p string, info os.FileInfo, err error) error {
		if err != nil {
			return nil
		}
		if info.IsDir() {
			m[p+"/"] = true
		} else {
			m[p] = true
		}
		return nil
	})
	return m
}
