package txtar

// Bounded stand-ins (labelled "bounded" in MANIFEST and evidence, never counted
// as proved). Run on the real functions through `go test -overlay`.

import (
	"bytes"
	"fmt"
	"os"
	"testing"
)

func verifBound(quick, thorough int) int {
	if os.Getenv("VERIF_TIER") == "thorough" {
		return thorough
	}
	return quick
}

// the input being processed, reported if the real code panics on it
var verifCur []byte

func verifReportPanic(name string) {
	if r := recover(); r != nil {
		fmt.Printf("VERIF-BOUNDED-PANIC: %s: panic on input %q: %v\n", name, verifCur, r)
	}
}

// enumerate all strings over alphabet up to length n
func verifEnum(alphabet []byte, n int, f func([]byte)) int {
	count := 0
	buf := make([]byte, 0, n)
	var rec func(k int)
	rec = func(k int) {
		count++
		verifCur = append([]byte(nil), buf...)
		f(append([]byte(nil), buf...))
		if k == n {
			return
		}
		for _, c := range alphabet {
			buf = append(buf, c)
			rec(k + 1)
			buf = buf[:len(buf)-1]
		}
	}
	rec(0)
	return count
}

// Unquote(Quote(d)) == d for every d that Quote accepts; exhaustive over
// {'>', LF, '-', ' ', 'x', CR} up to the bound.
func TestVerifBoundedUnquoteQuote(t *testing.T) {
	defer verifReportPanic("UnquoteQuote")
	n := verifBound(7, 10)
	fails := 0
	first := ""
	accepted := 0
	cases := verifEnum([]byte(">\n- x\r"), n, func(d []byte) {
		q, err := Quote(d)
		if err != nil {
			return
		}
		accepted++
		u, err := Unquote(q)
		if err != nil || !bytes.Equal(u, d) {
			fails++
			if first == "" {
				first = fmt.Sprintf("Unquote(Quote(%q)) = %q, %v", d, u, err)
			}
		}
	})
	fmt.Printf("VERIF-BOUNDED: name=UnquoteQuote bound=%d cases=%d nontrivial=%d failures=%d first=%q\n", n, cases, accepted, fails, first)
}

func verifSameArchive(a, b *Archive) bool {
	if !bytes.Equal(a.Comment, b.Comment) || len(a.Files) != len(b.Files) {
		return false
	}
	for i := range a.Files {
		if a.Files[i].Name != b.Files[i].Name || !bytes.Equal(a.Files[i].Data, b.Files[i].Data) {
			return false
		}
	}
	return true
}

// enumerate all concatenations of up to n tokens
func verifEnumTokens(tokens []string, n int, f func([]byte)) int {
	count := 0
	var rec func(k int, cur []byte)
	rec = func(k int, cur []byte) {
		count++
		verifCur = append([]byte(nil), cur...)
		f(append([]byte(nil), cur...))
		if k == n {
			return
		}
		for _, t := range tokens {
			rec(k+1, append(cur[:len(cur):len(cur)], t...))
		}
	}
	rec(0, nil)
	return count
}

// Re-parse stability Parse(Format(Parse(x))) == Parse(x), normalised contents,
// agreement with golang.org/x/tools/txtar on CR-free input, and CRLF == LF
// marker recognition; exhaustive over concatenations of marker-relevant tokens
// ("-- ", " --", "--", "x", " ", LF, CRLF, CR, "-- x --" + LF, "-- y --") up to the bound.
func TestVerifBoundedParseRoundTrip(t *testing.T) {
	defer verifReportPanic("ParseRoundTrip")
	n := verifBound(5, 7)
	fails := 0
	first := ""
	nontrivial := 0
	tokens := []string{"-- ", " --", "--", "x", " ", "\n", "\r\n", "\r", "-- x --\n", "-- y --"}
	cases := verifEnumTokens(tokens, n, func(d []byte) {
		note := func(f string, a ...any) {
			fails++
			if first == "" {
				first = fmt.Sprintf(f, a...)
			}
		}
		a := Parse(d)
		if len(a.Files) > 0 {
			nontrivial++
		}
		b := Parse(Format(a))
		if !verifSameArchive(a, b) {
			note("Parse(Format(Parse(%q))) differs: %q vs %q", d, Format(a), Format(b))
		}
		for _, f := range a.Files {
			if f.Name == "" || (len(f.Data) > 0 && f.Data[len(f.Data)-1] != '\n') {
				note("Parse(%q): file %q data %q not normalised", d, f.Name, f.Data)
			}
		}
		if len(a.Comment) > 0 && a.Comment[len(a.Comment)-1] != '\n' {
			note("Parse(%q): comment %q not normalised", d, a.Comment)
		}
		if !bytes.Contains(d, []byte("\r")) {
			if x := xtoolsParse(d); !verifSameArchive(a, x) {
				note("Parse(%q) disagrees with x/tools: %q vs %q", d, Format(a), Format(x))
			}
			// the same text with CRLF line ends has the same files (names) as with LF
			crlf := bytes.ReplaceAll(d, []byte("\n"), []byte("\r\n"))
			c := Parse(crlf)
			if len(c.Files) != len(a.Files) {
				note("Parse(%q) has %d files but its CRLF form %q has %d", d, len(a.Files), crlf, len(c.Files))
			} else {
				for i := range c.Files {
					if c.Files[i].Name != a.Files[i].Name {
						note("Parse(%q) and its CRLF form disagree on name %d", d, i)
					}
				}
			}
		}
	})
	fmt.Printf("VERIF-BOUNDED: name=ParseRoundTrip bound=%d cases=%d nontrivial=%d failures=%d first=%q\n", n, cases, nontrivial, fails, first)
}
