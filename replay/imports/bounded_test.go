package imports

// Bounded stand-ins for C19 (labelled bounded; never counted as proved).

import (
	"fmt"
	"go/build/constraint"
	"os"
	"strings"
	"testing"
)

func verifBound(quick, thorough int) int {
	if os.Getenv("VERIF_TIER") == "thorough" {
		return thorough
	}
	return quick
}

// refShouldBuild: every "// +build" line in the leading block of blank and //-comment
// lines that is followed by a blank line must be satisfied (go/build/constraint
// evaluates the line; android also satisfies linux).
func refShouldBuild(content string, tags map[string]bool) bool {
	lines := strings.SplitAfter(content, "\n")
	// leading run of blank lines and // comments; it counts up to the last blank line
	end := 0
	for i, l := range lines {
		t := strings.TrimSpace(l)
		if t == "" {
			if l != "" {
				end = i + 1
			}
			continue
		}
		if !strings.HasPrefix(t, "//") {
			break
		}
	}
	ok := true
	for _, l := range lines[:end] {
		t := strings.TrimSpace(l)
		if !strings.HasPrefix(t, "//") {
			continue
		}
		t = strings.TrimSpace(t[2:])
		if !strings.HasPrefix(t, "+build") {
			continue
		}
		f := strings.Fields(t)
		if len(f) == 0 || f[0] != "+build" {
			continue
		}
		x, err := constraint.Parse("// " + strings.Join(f, " "))
		if err != nil {
			// a line go/build/constraint rejects is never satisfied
			ok = false
			continue
		}
		if !x.Eval(func(tag string) bool { return tags[tag] || (tag == "linux" && tags["android"]) }) {
			ok = false
		}
	}
	return ok
}

func TestVerifBoundedShouldBuild(t *testing.T) {
	n := verifBound(4, 6)
	lines := []string{"// +build linux\n", "// +build !linux,amd64 android\n", "// +build ignore\n", "\n", "// comment\n", "package p\n", "//+build windows\n", "// +build linux", "// +builder windows\n", "// +build linux, \n", " \t\n", "// +build ignore\r\n", "\r\n", "// +build\n", "// +build ! linux\n"}
	tagsets := []map[string]bool{{"linux": true, "amd64": true}, {"android": true, "arm64": true}, {"windows": true}, {}}
	cases, nontrivial, fails := 0, 0, 0
	first := ""
	var rec func(k int, cur string)
	rec = func(k int, cur string) {
		for _, tags := range tagsets {
			cases++
			got, want := ShouldBuild([]byte(cur), tags), refShouldBuild(cur, tags)
			if !want {
				nontrivial++
			}
			if got != want {
				fails++
				if first == "" {
					first = fmt.Sprintf("ShouldBuild(%q, %v) = %v, reference %v", cur, tags, got, want)
				}
			}
		}
		if k == n {
			return
		}
		for _, l := range lines {
			rec(k+1, cur+l)
		}
	}
	rec(0, "")
	fmt.Printf("VERIF-BOUNDED: name=ShouldBuild bound=%d cases=%d nontrivial=%d failures=%d first=%q\n", n, cases, nontrivial, fails, first)
}

// C18: ReadImports agrees with go/parser (ImportsOnly) on generated valid files:
// same import paths in the same order, and the returned prefix (a byte-order mark
// aside) still parses to those imports.
func TestVerifBoundedReadImports(t *testing.T) {
	n := verifBound(3, 4)
	boms := []string{"", "\xef\xbb\xbf"}
	headers := []string{"package p\n", "// c\npackage p;", "/* c */ package p\n\n", "/** doc **/\npackage p\n", "package p//c\n", "package p/* c */\n"}
	specs := []string{`import "a"` + "\n", `import x "b/c"` + "\n", `import z"j"` + "\n", "import (_`k`)\n", "import . `d`;", `import _ "e"` + "\n", "import (\n\t\"f\"\n\ty \"g\"\n)\n", "import ( \"h\"; . \"i\" )\n", "// c\n", "/* import \"no\" */\n", "import ()\n", "/** b **/\n", "/***/", "/* * / **/ "}
	tails := []string{"", "var x = 1\n", "func f() {}\n", "type T struct{}\n"}
	cases, nontrivial, fails := 0, 0, 0
	first := ""
	var rec func(k int, cur string)
	check := func(src string) {
		cases++
		want, werr := refImports(src)
		if werr != nil {
			return // not a valid file: outside the stand-in
		}
		var got []string
		data, err := ReadImports(strings.NewReader(src), true, &got)
		if len(want) > 0 {
			nontrivial++
		}
		bad := err != nil || len(got) != len(want)
		for i := 0; !bad && i < len(want); i++ {
			if got[i] != want[i] {
				bad = true
			}
		}
		if !bad {
			// the prefix must still parse to the same imports
			pre := strings.TrimPrefix(string(data), "\xef\xbb\xbf")
			if !strings.HasPrefix(strings.TrimPrefix(src, "\xef\xbb\xbf"), pre) {
				bad = true
			} else if p2, e2 := refImports(pre); e2 != nil || len(p2) != len(want) {
				bad = true
			}
		}
		if bad {
			fails++
			if first == "" {
				first = fmt.Sprintf("ReadImports(%q) = imports %q, prefix %q, err %v; go/parser says %q", src, got, data, err, want)
			}
		}
	}
	rec = func(k int, cur string) {
		for _, tl := range tails {
			check(cur + tl)
			// the same file with CRLF line ends (carriage return is white space to the reader)
			check(strings.ReplaceAll(cur+tl, "\n", "\r\n"))
		}
		if k == n {
			return
		}
		for _, s := range specs {
			rec(k+1, cur+s)
		}
	}
	for _, b := range boms {
		for _, h := range headers {
			rec(0, b+h)
		}
	}
	fmt.Printf("VERIF-BOUNDED: name=ReadImports bound=%d cases=%d nontrivial=%d failures=%d first=%q\n", n, cases, nontrivial, fails, first)
}
