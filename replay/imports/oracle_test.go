package imports

// Executable oracles for property C19, written from the property text (Go's
// build-constraint rules), independently of the implementation.

import (
	"fmt"
	"strings"
)

func refSelects(tags map[string]bool, tok string) bool {
	return tags[tok] || (tok == "linux" && tags["android"])
}

// refMatchFile: false exactly when the name ends in _GOOS, _GOARCH or _GOOS_GOARCH
// (optionally followed by _test) for a known OS/arch that tags does not select.
func refMatchFile(name string, tags map[string]bool) bool {
	if tags["*"] {
		return true
	}
	if i := strings.IndexByte(name, '.'); i >= 0 {
		name = name[:i]
	}
	i := strings.IndexByte(name, '_')
	if i < 0 {
		return true
	}
	segs := strings.Split(name[i:], "_")
	if len(segs) > 0 && segs[len(segs)-1] == "test" {
		segs = segs[:len(segs)-1]
	}
	n := len(segs)
	switch {
	case n >= 2 && KnownOS[segs[n-2]] && KnownArch[segs[n-1]]:
		return refSelects(tags, segs[n-2]) && tags[segs[n-1]]
	case n >= 1 && KnownOS[segs[n-1]]:
		return refSelects(tags, segs[n-1])
	case n >= 1 && KnownArch[segs[n-1]]:
		return tags[segs[n-1]]
	}
	return true
}

func verifProbe_MatchFile() string {
	names := []string{"x_linux.go", "x_linux_arm64.go", "x_linux_test.go", "x_linux_arm64_test.go", "x_android.go", "x_windows.go",
		"x_arm64.go", "linux.go", "x_foo.go", "_linux.go", "x_linux_amd64.go", "x.go", "a_b_linux.go", "x_linux.s", "x_test.go"}
	tagsets := []map[string]bool{
		{"android": true, "arm64": true}, {"linux": true, "amd64": true}, {"windows": true, "amd64": true},
		{"android": true, "amd64": true, "linux": false}, {"*": true}, {},
	}
	for _, n := range names {
		for _, t := range tagsets {
			if got, want := MatchFile(n, t), refMatchFile(n, t); got != want {
				return fmt.Sprintf("MatchFile(%q, %v) = %v, want %v", n, t, got, want)
			}
		}
	}
	return ""
}
