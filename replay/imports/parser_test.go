package imports

import (
	"go/parser"
	"go/token"
	"strconv"
)

// refImports: the import paths of a file according to go/parser (quoted as in the source).
func refImports(src string) ([]string, error) {
	f, err := parser.ParseFile(token.NewFileSet(), "x.go", src, parser.ImportsOnly)
	if err != nil {
		return nil, err
	}
	var out []string
	for _, im := range f.Imports {
		out = append(out, im.Path.Value)
	}
	_ = strconv.Quote
	return out, nil
}
