package goproxytest

import (
	"fmt"
	"os"
	"testing"

	"golang.org/x/mod/module"
)

func verifBound(quick, thorough int) int {
	if os.Getenv("VERIF_TIER") == "thorough" {
		return thorough
	}
	return quick
}

// TestVerifBoundedPseudo: bounded stand-in for isPseudoVersion (a regular expression: no
// contract-level specification): on every version string composed from the parts below it
// agrees with golang.org/x/mod/module.IsPseudoVersion, the definition the go command uses.
func TestVerifBoundedPseudo(t *testing.T) {
	majors := []string{"v0", "v1", "v2", "1", "v"}
	mids := []string{".0.0-", ".2.3-0.", ".2.3-pre.0.", ".2.3-pre.", ".2.3-", ".0.0", ".2-0.", ".0.0-0."}
	stamps := []string{"20190102030405", "2019010203040", "201901020304055", "2019010203040x", ""}
	seps := []string{"-", "", "."}
	revs := []string{"0123456789ab", "abcdef", "ABC123", "", "0123-4567", "0123_4567"}
	// Build metadata other than +incompatible is outside the property's domain (and there the
	// pinned copy of the expression differs from x/mod's, which accepts any metadata).
	tails := []string{"", "+incompatible", "-incompatible", "+"}
	if verifBound(0, 1) == 0 {
		majors = majors[:3]
		stamps = stamps[:4]
		revs = revs[:5]
	}
	cases, nontrivial, fails := 0, 0, 0
	first := ""
	for _, a := range majors {
		for _, b := range mids {
			for _, c := range stamps {
				for _, d := range seps {
					for _, e := range revs {
						for _, f := range tails {
							v := a + b + c + d + e + f
							cases++
							want := module.IsPseudoVersion(v)
							if want {
								nontrivial++
							}
							if got := isPseudoVersion(v); got != want {
								fails++
								if first == "" {
									first = fmt.Sprintf("isPseudoVersion(%q) = %v, module.IsPseudoVersion = %v", v, got, want)
								}
							}
						}
					}
				}
			}
		}
	}
	fmt.Printf("VERIF-BOUNDED: name=Pseudo bound=%d cases=%d nontrivial=%d failures=%d first=%q\n", len(majors)*len(mids), cases, nontrivial, fails, first)
}
